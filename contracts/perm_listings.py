"""Contracts of the positional listings and their counts (C11).

Every listing is stated as the definitional filter `c.listing(name, lo, hi, pred)`:
the increasing list of the indices in [lo, hi) that satisfy the defining predicate.
Comprehension-based bodies are proved with the FILTER-CONGRUENCE rule; `yield` loops with
an invariant relating the ghost output to the prefix count of the same listing.
"""
from pyvc.dsl import contract

P = ("C11",)


def _perm(c, self):
    return c.is_perm(self)


def listing_contract(qual, pred_of, lo=0, hi_off=0, val=None, params=None, extra_req=None):
    """Register `qual` with: result == [val(i) for i in range(lo, len(self)+hi_off) if pred(i)]."""

    @contract(qual, params=params or {"self": "Perm"}, returns="gen", props=P)
    class _K:
        def requires(c, self, *rest):
            return c.and_(c.is_perm(self), *(extra_req(c, self, *rest) if extra_req else []))

        def ensures(c, self, *rest):
            *args, result = rest
            n = c.len(self)
            return c.seq_eq(result, c.listing(qual, lo, n + hi_off, lambda i: pred_of(c, self, i, *args), (lambda i: val(c, self, i)) if val else None))

        modifies = ()

    return _K


listing_contract("Perm.fixed_points", lambda c, p, i: p[i] == i)
listing_contract("Perm.peaks", lambda c, p, i: c.and_(p[i - 1] < p[i], p[i] > p[i + 1]), lo=1, hi_off=-1)
listing_contract("Perm.valleys", lambda c, p, i: c.and_(p[i - 1] > p[i], p[i] < p[i + 1]), lo=1, hi_off=-1)
listing_contract("Perm.bends", lambda c, p, i: c.or_(c.and_(p[i - 1] < p[i], p[i] > p[i + 1]), c.and_(p[i - 1] > p[i], p[i] < p[i + 1])), lo=1, hi_off=-1)
listing_contract("Perm.pinnacles", lambda c, p, i: c.and_(p[i - 1] < p[i], p[i] > p[i + 1]), lo=1, hi_off=-1, val=lambda c, p, i: p[i])
listing_contract("Perm.all_bonds", lambda c, p, i: c.or_(p[i + 1] == p[i] + 1, p[i] == p[i + 1] + 1), hi_off=-1)
listing_contract("Perm.inc_bonds", lambda c, p, i: p[i + 1] == p[i] + 1, hi_off=-1)
listing_contract("Perm.dec_bonds", lambda c, p, i: p[i] == p[i + 1] + 1, hi_off=-1)


@contract("Perm.descents", params={"self": "Perm", "step_size": "int?"}, returns="gen", props=P)
class Descents:
    # i is a descent iff p[i] > p[i+1]; with a step size s >= 1 only those with p[i] = p[i+1] + s
    defaults = {"step_size": None}
    raises_type = "ValueError"

    def requires(c, self, step_size):
        return c.is_perm(self)

    def raises(c, self, step_size):
        return c.given(step_size) and c.int(step_size) < 1

    def ensures(c, self, step_size, result):
        n = c.len(self)
        if not c.given(step_size):
            return c.seq_eq(result, c.listing("Perm.descents", 0, n - 1, lambda i: self[i] > self[i + 1]))
        return c.seq_eq(result, c.listing("Perm.descents/s", 0, n - 1, lambda i: self[i] == self[i + 1] + step_size))

    modifies = ()


@contract("Perm.ascents", params={"self": "Perm", "step_size": "int?"}, returns="gen", props=P)
class Ascents:
    defaults = {"step_size": None}
    raises_type = "ValueError"

    def requires(c, self, step_size):
        return c.is_perm(self)

    def raises(c, self, step_size):
        return c.given(step_size) and c.int(step_size) < 1

    def ensures(c, self, step_size, result):
        n = c.len(self)
        if not c.given(step_size):
            return c.seq_eq(result, c.listing("Perm.ascents", 0, n - 1, lambda i: self[i] < self[i + 1]))
        return c.seq_eq(result, c.listing("Perm.ascents/s", 0, n - 1, lambda i: self[i] + step_size == self[i + 1]))

    modifies = ()


# ------------------------------------------------------------- yield loops
def yield_listing(qual, pred_of):
    """for idx, val in enumerate(self): if <pred>: yield idx"""

    @contract(qual, params={"self": "Perm"}, returns="gen", props=P)
    class _K:
        def requires(c, self):
            return c.is_perm(self)

        def ensures(c, self, result):
            return c.seq_eq(result, c.listing(qual, 0, c.len(self), lambda i: pred_of(c, self, i)))

        invariants = {
            0: lambda c, st, k: (lambda L: c.and_(
                c.len(st.__out__) == c.count_upto(L, k),
                c.forall(0, c.len(st.__out__), lambda j: st.__out__[j] == L[j]),
            ))(c.listing(qual, 0, c.len(st.self), lambda i: pred_of(c, st.self, i)))
        }
        modifies = ()

    return _K


yield_listing("Perm.cyclic_peaks", lambda c, p, i: c.and_(i < p[i], p[i] > p[p[i]]))
yield_listing("Perm.cyclic_valleys", lambda c, p, i: c.and_(i > p[i], p[i] < p[p[i]]))
yield_listing("Perm.double_excedance", lambda c, p, i: c.and_(i < p[i], p[i] < p[p[i]]))
yield_listing("Perm.double_drops", lambda c, p, i: c.and_(i > p[i], p[i] > p[p[i]]))


# --------------------------------------------- counting and list forms (wrappers)
def count_of(count_qual, listing_qual, extra=None):
    params = {"self": "Perm"}
    params.update(extra or {})

    @contract(count_qual, params=params, returns="int", props=P)
    class _K:
        defaults = {k: None for k in (extra or {})}

        def requires(c, self, *rest):
            return c.is_perm(self)

        def ensures(c, self, *rest):
            *args, result = rest
            return result == c.len(c.call(listing_qual, self, *args))

        # each counting form equals the size of the corresponding listing form
        modifies = ()

    if extra:
        _with_step_error(count_qual)
    return _K


def _with_step_error(qual):
    from pyvc.dsl import CONTRACTS

    K = CONTRACTS[qual]
    K.raises_type = "ValueError"
    K.raises = lambda c, self, step_size: c.given(step_size) and c.int(step_size) < 1


def list_of(list_qual, listing_qual, extra=None):
    params = {"self": "Perm"}
    params.update(extra or {})

    @contract(list_qual, params=params, returns="Seq", props=P)
    class _K:
        defaults = {k: None for k in (extra or {})}

        def requires(c, self, *rest):
            return c.is_perm(self)

        def ensures(c, self, *rest):
            *args, result = rest
            return c.seq_eq(result, c.call(listing_qual, self, *args))

        modifies = ()

    if extra:
        _with_step_error(list_qual)
    return _K


STEP = {"step_size": "int?"}
count_of("Perm.count_fixed_points", "Perm.fixed_points")
count_of("Perm.count_descents", "Perm.descents", STEP)
count_of("Perm.count_ascents", "Perm.ascents", STEP)
count_of("Perm.count_peaks", "Perm.peaks")
count_of("Perm.count_valleys", "Perm.valleys")
count_of("Perm.count_bonds", "Perm.all_bonds")
count_of("Perm.count_inc_bonds", "Perm.inc_bonds")
count_of("Perm.count_dec_bonds", "Perm.dec_bonds")
count_of("Perm.count_cyclic_peaks", "Perm.cyclic_peaks")
count_of("Perm.count_cyclic_valleys", "Perm.cyclic_valleys")
count_of("Perm.count_double_excedance", "Perm.double_excedance")
count_of("Perm.count_double_drops", "Perm.double_drops")
list_of("Perm.descent_set", "Perm.descents", STEP)
list_of("Perm.ascent_set", "Perm.ascents", STEP)
list_of("Perm.peak_list", "Perm.peaks")
list_of("Perm.valley_list", "Perm.valleys")
list_of("Perm.bend_list", "Perm.bends")
list_of("Perm.pinnacle_set", "Perm.pinnacles")
list_of("Perm.cyclic_peaks_list", "Perm.cyclic_peaks")
list_of("Perm.cyclic_valleys_list", "Perm.cyclic_valleys")
list_of("Perm.double_excedance_list", "Perm.double_excedance")
list_of("Perm.double_drops_list", "Perm.double_drops")


# ------------------------------------------------ records (left-to-right minima / maxima)
def record_contract(qual, better, start):
    """for idx, val in enumerate(self): if val <better> ext: ext = val; yield idx"""

    def is_record(c, p, i):
        return c.forall(0, i, lambda j: better(p[i], p[j]))

    @contract(qual, params={"self": "Perm"}, returns="gen", props=P)
    class _K:
        def requires(c, self):
            return c.is_perm(self)

        def ensures(c, self, result):
            return c.seq_eq(result, c.listing(qual, 0, c.len(self), lambda i: is_record(c, self, i)))

        @staticmethod
        def _inv(c, st, k):
            p = st.self
            n = c.len(p)
            L = c.listing(qual, 0, n, lambda i: is_record(c, p, i))
            ext = st.min_val if hasattr_ns(st, "min_val") else st.max_val
            return c.and_(
                c.len(st.__out__) == c.count_upto(L, k),
                c.forall(0, c.len(st.__out__), lambda j: st.__out__[j] == L[j]),
                c.forall(0, k, lambda j: c.or_(better(ext, p[j]), ext == p[j])),
                c.implies(k == 0, ext == start(c, p)),
                c.implies(k > 0, c.exists(0, k, lambda j: p[j] == ext)),
            )

        invariants = {0: lambda c, st, k: _K._inv(c, st, k)}
        modifies = ()

    return _K


def hasattr_ns(st, name):
    try:
        getattr(st, name)
        return True
    except Exception:  # noqa: BLE001
        return False


record_contract("Perm.ltrmin", lambda a, b: a < b, lambda c, p: c.len(p))
record_contract("Perm.ltrmax", lambda a, b: a > b, lambda c, p: c.int(-1))
count_of("Perm.count_ltrmin", "Perm.ltrmin")
count_of("Perm.count_ltrmax", "Perm.ltrmax")


# ------------------------------------------------ sums over filters (FILTER-SUM / SUM-CONGRUENCE)
@contract("Perm.depth", params={"self": "Perm"}, returns="int", props=P)
class Depth:
    # Petersen-Tenner depth: the sum of p[i] - i over the excedances i (p[i] > i)
    def requires(c, self):
        return c.is_perm(self)

    def ensures(c, self, result):
        return c.sum_eq(result, c.wsum("Perm.depth", 0, c.len(self), lambda i: c.ite(self[i] > i, self[i] - i, 0)))

    modifies = ()


@contract("Perm.major_index", params={"self": "Perm"}, returns="int", props=P)
class MajorIndex:
    # the sum of the (1-based) positions i + 1 of the descents i (p[i] > p[i+1])
    def requires(c, self):
        return c.is_perm(self)

    def ensures(c, self, result):
        return c.sum_eq(result, c.wsum("Perm.major_index", 0, c.len(self) - 1, lambda i: c.ite(self[i] > self[i + 1], i + 1, 0)))

    modifies = ()


# ------------------------------------------------ maximal_decreasing_run
def _mdr_inv(c, st, k):
    p = st.self
    n = c.len(p)
    nv, mni = st.next_val, st.max_not_included
    return c.and_(
        st.n == n, nv >= -1, nv <= n - 1,
        # the values above next_val were met, in decreasing order, inside the prefix read so far
        c.forall(nv + 1, n, lambda v: c.pos(p, v) < k),
        c.forall(nv + 1, n - 1, lambda v: c.pos(p, v + 1) < c.pos(p, v)),
        # next_val itself: not met yet, or met before its successor was
        c.implies(c.and_(nv >= 0, c.pos(p, nv) < k), lambda: c.and_(nv < n - 1, lambda: c.pos(p, nv) < c.pos(p, nv + 1))),
        # the largest skipped value is below next_val (so the early exit is never taken wrongly)
        mni >= -1, mni <= nv, c.implies(mni >= 0, lambda: c.pos(p, mni) < k),
    )


@contract("Perm.maximal_decreasing_run", params={"self": "Perm"}, returns="int", props=P)
class MaximalDecreasingRun:
    # the largest k such that n-1, n-2, ..., n-k occur in this order (left to right) in the permutation
    def requires(c, self):
        return c.is_perm(self)

    def ensures(c, self, result):
        n = c.len(self)
        k = result
        return c.and_(
            k >= 0, k <= n, c.implies(n >= 1, k >= 1),
            c.forall(n - k, n - 1, lambda v: c.pos(self, v + 1) < c.pos(self, v)),
            c.implies(c.and_(k >= 1, k < n), lambda: c.pos(self, n - 1 - k) < c.pos(self, n - k)),
        )

    invariants = {0: _mdr_inv}
    modifies = ()


# ------------------------------------------------ longest ascending runs
# lo(j) (c.rec_asc_lo) is the start of the maximal ascending run ending at j, defined by recursion on j; the run ending
# at j has j - lo(j) + 1 entries.  The longest run length is the maximum of that over j.  A maximal run is named by its
# END e (the last index, or a non-ascent p[e] >= p[e+1]); the result lists, in increasing order, exactly the starts
# lo(e) of the maximal runs with e - lo(e) + 1 = maxi.
def _lra_end(c, p, n, maxi, e, upto):
    """e is the end of a maximal run of length maxi (among the pairs read so far when `upto` is given)"""
    last = (lambda: c.not_(p[e] < p[e + 1])) if upto is not None else (lambda: c.or_(e == n - 1, lambda: c.not_(p[e] < p[e + 1])))
    return c.and_(e >= 0, (e < upto) if upto is not None else (e <= n - 1), last, lambda: e - c.rec_asc_lo(p, e) + 1 == maxi)


def _lra_res(c, p, n, maxi, res, upto):
    return c.and_(
        c.forall(0, c.len(res) - 1, lambda t: res[t] < res[t + 1]),
        # soundness: every listed index starts a maximal run of length maxi (its end is res[t] + maxi - 1)
        c.forall(0, c.len(res), lambda t: c.and_(res[t] >= 0, lambda: c.rec_asc_lo(p, res[t] + maxi - 1) == res[t], lambda: _lra_end(c, p, n, maxi, res[t] + maxi - 1, upto))),
        # completeness: the start of every maximal run of length maxi is listed
        c.forall(0, n, lambda e: c.implies(_lra_end(c, p, n, maxi, e, upto), lambda: c.member(c.rec_asc_lo(p, e), res)),
                 pattern=(lambda e: c.rec_asc_lo(p, e)) if c.mode == "sym" else None),
    )


def _lra_inv(c, st, k):
    p = st.self
    n = c.len(p)
    maxi, cur, res = st.maxi, st.cur, st.res
    return c.and_(
        st.n == n, n >= 1, cur >= 0, cur <= k, cur == c.rec_asc_lo(p, k),
        maxi >= 1,
        # no run among the positions read so far is longer than maxi (the top position is stated on its own: the
        # recursion of lo unfolds at the syntactic term k), and one has that length
        c.forall(0, k, lambda j: j - c.rec_asc_lo(p, j) + 1 <= maxi, pattern=(lambda j: c.rec_asc_lo(p, j)) if c.mode == "sym" else None),
        k - cur + 1 <= maxi,
        c.exists(0, c.int(k) + 1, lambda j: j - c.rec_asc_lo(p, j) + 1 == maxi),
        c.forall(0, c.len(res), lambda t: res[t] < cur),
        _lra_res(c, p, n, maxi, res, k),
    )


@contract("Perm.longestruns_ascending", params={"self": "Perm"}, returns="int+IntList", props=P)
class LongestRunsAscending:
    def requires(c, self):
        return c.is_perm(self)

    def ensures(c, self, result):
        n = c.len(self)
        maxi, res = result[0], result[1]
        return c.and_(
            c.implies(n == 0, lambda: c.and_(maxi == 0, c.len(res) == 0)),
            c.implies(n >= 1, lambda: c.and_(
                maxi >= 1,
                c.forall(0, n, lambda j: j - c.rec_asc_lo(self, j) + 1 <= maxi),
                c.exists(0, n, lambda j: j - c.rec_asc_lo(self, j) + 1 == maxi),
                _lra_res(c, self, n, maxi, res, None),
            )),
        )

    invariants = {0: _lra_inv}
    modifies = ()


@contract("Perm.length_of_longestrun_ascending", params={"self": "Perm"}, returns="int", props=P)
class LengthOfLongestRunAscending:
    def requires(c, self):
        return c.is_perm(self)

    def ensures(c, self, result):
        return result == c.call("Perm.longestruns_ascending", self)[0]

    modifies = ()


@contract("Perm.longestruns_descending", params={"self": "Perm"}, returns="int+IntList", props=P)
class LongestRunsDescending:
    # the longest DESCENDING runs are the longest ascending runs of the complement (n-1-p[i]: every descent becomes an ascent)
    def requires(c, self):
        return c.is_perm(self)

    def ensures(c, self, result):
        want = c.call("Perm.longestruns_ascending", c.call("Perm.complement", self))
        return c.and_(result[0] == want[0], c.seq_eq(result[1], want[1]))

    modifies = ()


@contract("Perm.length_of_longestrun_descending", params={"self": "Perm"}, returns="int", props=P)
class LengthOfLongestRunDescending:
    def requires(c, self):
        return c.is_perm(self)

    def ensures(c, self, result):
        return result == c.call("Perm.longestruns_ascending", c.call("Perm.complement", self))[0]

    modifies = ()
