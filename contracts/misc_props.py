"""Smaller contracts: monotonicity tests and sortability wrappers (C11, C12), finiteness and the
four run-shape predicates of the insertion encoding (C13), shape helpers of the core strategies
(C19), simple constructors and the validating constructor (C09)."""
from pyvc.dsl import GHOST_IMPL, contract


# ------------------------------------------------------------------ monotone tests
@contract("Perm.is_increasing", params={"self": "Perm"}, returns="bool", props=("C11", "C12", "C13"))
class IsIncreasing:
    def requires(c, self):
        return c.is_perm(self)

    def ensures(c, self, result):
        return c.iff(result, c.forall(0, c.len(self), lambda i: self[i] == i))

    modifies = ()


@contract("Perm.is_decreasing", params={"self": "Perm"}, returns="bool", props=("C11", "C13"))
class IsDecreasing:
    def requires(c, self):
        return c.is_perm(self)

    def ensures(c, self, result):
        n = c.len(self)
        return c.iff(result, c.forall(0, n, lambda i: self[i] == n - 1 - i))

    modifies = ()


# -------------------------------------------------- sorting operators (assumed) + wrappers
def _assumed_sort(qual):
    @contract(qual, params={"self": "Perm"}, returns="Perm", props=("C12",), assumed=True)
    class _K:
        # ASSUMED (decided by the bounded layer against the device simulation): a permutation of the same length
        def requires(c, self):
            return c.is_perm(self)

        def ensures(c, self, result):
            return c.and_(c.len(result) == c.len(self), c.is_perm(result))

    return _K


for _q in ("Perm.quick_sort",):  # stack_sort, pop_stack_sort, bubble_sort: proved, contracts/sorting_ops.py
    _assumed_sort(_q)


def _sortable(qual, op, passes=1):
    @contract(qual, params={"self": "Perm"}, returns="bool", props=("C12",))
    class _K:
        # 'sortable' holds exactly when the output of the operator (applied `passes` times) is the identity
        def requires(c, self):
            return c.is_perm(self)

        def ensures(c, self, result):
            out = self
            for _ in range(passes):
                out = c.call(op, out)
            return c.iff(result, c.forall(0, c.len(out), lambda i: out[i] == i))

        modifies = ()

    return _K


_sortable("Perm.stack_sortable", "Perm.stack_sort")
_sortable("Perm.pop_stack_sortable", "Perm.pop_stack_sort")
_sortable("Perm.bubble_sortable", "Perm.bubble_sort")
_sortable("Perm.quick_sortable", "Perm.quick_sort")
_sortable("Perm.west_2_stack_sortable", "Perm.stack_sort", 2)
_sortable("Perm.west_3_stack_sortable", "Perm.stack_sort", 3)


# ------------------------------------------------------------------------- C13
def _mono(c, p, increasing):
    n = c.len(p)
    return c.forall(0, n, lambda i: p[i] == (i if increasing else n - 1 - i))


def _is_finite(k):
    @contract(f"permuta.permutils.finite:is_finite@{k}", params={"basis": f"Perm*{k}"}, returns="bool", props=("C13",))
    class _K:
        # finite iff the basis has a decreasing and an increasing element (Erdos-Szekeres)
        def requires(c, basis):
            return c.and_(*[c.is_perm(b) for b in basis])

        def ensures(c, basis, result):
            return c.iff(result, c.and_(c.or_(*[_mono(c, b, False) for b in basis]), c.or_(*[_mono(c, b, True) for b in basis])))

        modifies = ()

    return _K


for _k in (0, 1, 2, 3):
    _is_finite(_k)


def _desc(p, i):
    return p[i + 1] < p[i]


def _asc(p, i):
    return p[i + 1] > p[i]


def _shape(qual, first, later):
    """not exists i < j (adjacent steps): first(i) and later(j)"""

    @contract(qual, params={"perm": "Perm"}, returns="bool", props=("C13",))
    class _K:
        def requires(c, perm):
            return c.is_perm(perm)

        def ensures(c, perm, result):
            n = c.len(perm)
            return c.iff(result, c.not_(c.exists(0, n - 1, lambda i: c.and_(first(perm, i), c.exists(i + 1, n - 1, lambda j: later(perm, j))))))

        modifies = ()

    return _K


IE = "InsertionEncodablePerms."
_shape(IE + "_is_incr_next_incr", _desc, _desc)   # at most one descent: two increasing runs
_shape(IE + "_is_incr_next_decr", _desc, _asc)    # no ascent after a descent: increasing then decreasing
_shape(IE + "_is_decr_next_incr", _asc, _desc)    # no descent after an ascent: decreasing then increasing
_shape(IE + "_is_decr_next_decr", _asc, _asc)     # at most one ascent: two decreasing runs


# ------------------------------------------------------------------------- C09
@contract("Perm.identity", params={"cls": "none", "length": "nat"}, returns="Perm", props=("C09",))
class Identity:
    def requires(c, cls, length):
        return c.true()

    def ensures(c, cls, length, result):
        return c.and_(c.len(result) == length, c.forall(0, length, lambda i: result[i] == i), c.is_perm(result))

    def ghost_inverse(c, cls, length, result):
        return lambda v: c.int(v)

    modifies = ()


@contract("Perm.monotone_decreasing", params={"cls": "none", "length": "nat"}, returns="Perm", props=("C09",))
class MonotoneDecreasing:
    def requires(c, cls, length):
        return c.true()

    def ensures(c, cls, length, result):
        return c.and_(c.len(result) == length, c.forall(0, length, lambda i: result[i] == c.int(length) - 1 - i), c.is_perm(result))

    def ghost_inverse(c, cls, length, result):
        return lambda v: c.int(length) - 1 - c.int(v)

    modifies = ()


@contract("Perm.one_based", params={"cls": "none", "iterable": "Seq"}, returns="Seq", props=("C09", "C19"))
class OneBased:
    def requires(c, cls, iterable):
        return c.true()

    def ensures(c, cls, iterable, result):
        return c.and_(c.len(result) == c.len(iterable), c.forall(0, c.len(iterable), lambda i: result[i] == iterable[i] - 1))

    modifies = ()


@contract("Perm.from_iterable_validated", params={"cls": "none", "iterable": "Seq"}, returns="Seq", props=("C09",))
class FromIterableValidated:
    # accepts exactly the bijections of range(n); otherwise ValueError (integers only here)
    raises_type = "ValueError"

    def requires(c, cls, iterable):
        return c.true()

    def raises(c, cls, xs):
        n = c.len(xs)
        return c.or_(
            c.exists(0, n, lambda i: c.or_(xs[i] < 0, xs[i] >= n)),
            c.exists(0, n, lambda i: c.exists(0, n, lambda j: c.and_(i < j, xs[i] == xs[j]))),
        )

    def ensures(c, cls, xs, result):
        return c.seq_eq(result, xs)

    invariants = {
        0: lambda c, st, k: c.and_(
            c.len(st.used) == c.len(st.perm),
            c.forall(0, k, lambda j: c.and_(0 <= st.perm[j], st.perm[j] < c.len(st.perm))),
            c.forall(0, c.len(st.perm), lambda v: c.iff(st.used[v], c.exists(0, k, lambda j: st.perm[j] == v))),
            c.forall(0, k, lambda i: c.forall(0, k, lambda j: c.implies(i < j, st.perm[i] != st.perm[j]))),
        )
    }
    modifies = ()


# ------------------------------------------------------------------------- C19
CS = "permuta.enumeration_strategies.core_strategies:"
# Perm.is_sum_decomposable / is_skew_decomposable: verified, see contracts/perm_more.py


@contract(CS + "fstrip", params={"perm": "Perm"}, returns="Perm", props=("C19",))
class FStrip:
    # remove the leading minimum if the permutation is 1 (+) p
    def requires(c, perm):
        return c.and_(c.is_perm(perm), c.len(perm) > 0)

    def ensures(c, perm, result):
        n = c.len(perm)
        return c.and_(
            c.implies(perm[0] == 0, lambda: c.and_(c.len(result) == n - 1, c.forall(0, n - 1, lambda i: result[i] == perm[i + 1] - 1))),
            c.implies(perm[0] != 0, lambda: c.seq_eq(result, perm)),
            c.is_perm(result),
        )

    def ghost_inverse(c, perm, result):
        g = perm.meta["ginv"]
        return lambda v: c.ite(perm[0] == 0, g(c.int(v) + 1) - 1, g(c.int(v)))

    modifies = ()


@contract(CS + "bstrip", params={"perm": "Perm"}, returns="Perm", props=("C19",))
class BStrip:
    # remove the trailing maximum if the permutation is p (+) 1
    def requires(c, perm):
        return c.and_(c.is_perm(perm), c.len(perm) > 0)

    def ensures(c, perm, result):
        n = c.len(perm)
        return c.and_(
            c.implies(perm[n - 1] == n - 1, lambda: c.and_(c.len(result) == n - 1, c.forall(0, n - 1, lambda i: result[i] == perm[i]))),
            c.implies(perm[n - 1] != n - 1, lambda: c.seq_eq(result, perm)),
            c.is_perm(result),
        )

    def ghost_inverse(c, perm, result):
        return perm.meta["ginv"]

    modifies = ()


@contract(CS + "zero_plus_perm", params={"perm": "Perm"}, returns="bool", props=("C19",))
class ZeroPlusPerm:
    def requires(c, perm):
        return c.and_(c.is_perm(perm), c.len(perm) > 0)

    def ensures(c, perm, result):
        return c.iff(result, perm[0] == 0)

    modifies = ()


# ------------------------------------------------------------- more C10 / C11 wrappers
GHOST_IMPL["INV"] = lambda p: sum(1 for i in range(len(p)) for j in range(i + 1, len(p)) if p[i] > p[j])


@contract("Perm.count_inversions", params={"self": "Perm"}, returns="int", props=("C11",), assumed=True)
class CountInversionsAssumed:
    # ASSUMED (Fenwick tree with bit tricks, outside the subset; bounded layer decides it)
    def requires(c, self):
        return c.is_perm(self)

    def ensures(c, self, result):
        return result == c.ghost("INV", self)


@contract("Perm.count_non_inversions", params={"self": "Perm"}, returns="int", props=("C11",))
class CountNonInversions:
    # pairs i < j are either inversions or non-inversions: n(n-1)/2 - inv
    def requires(c, self):
        return c.is_perm(self)

    def ensures(c, self, result):
        n = c.len(self)
        return result == c.floordiv(n * (n - 1), 2) - c.ghost("INV", self)

    modifies = ()


@contract("Perm.max_drop_size", params={"self": "Perm"}, returns="int", props=("C11",))
class MaxDropSize:
    # max over i of p[i] - i (0 for the empty permutation)
    def requires(c, self):
        return c.is_perm(self)

    def ensures(c, self, result):
        n = c.len(self)
        return c.and_(
            c.implies(n == 0, result == 0),
            c.implies(n > 0, lambda: c.and_(c.exists(0, n, lambda i: self[i] - i == result), c.forall(0, n, lambda i: self[i] - i <= result))),
        )

    modifies = ()


@contract("Perm.is_involution", params={"self": "Perm"}, returns="bool", props=("C11",))
class IsInvolution:
    def requires(c, self):
        return c.is_perm(self)

    def ensures(c, self, result):
        return c.iff(result, c.forall(0, c.len(self), lambda i: self[self[i]] == i))

    modifies = ()


@contract("Perm.apply", params={"self": "Perm", "iterable": "Seq"}, returns="Seq", props=("C10",))
class Apply:
    def requires(c, self, iterable):
        return c.and_(c.is_perm(self), c.len(iterable) == c.len(self))

    def ensures(c, self, iterable, result):
        n = c.len(self)
        return c.and_(c.len(result) == n, c.forall(0, n, lambda i: result[i] == iterable[self[i]]))

    modifies = ()


def _operator(qual, target):
    @contract(qual, params={"self": "Perm", "other": "Perm"}, returns="Perm", props=("C10",))
    class _K:
        # the operator is the named operation on a Perm operand
        def requires(c, self, other):
            extra = [c.len(other) == c.len(self)] if target == "Perm.compose" else []
            return c.and_(c.is_perm(self), c.is_perm(other), *extra)

        def ensures(c, self, other, result):
            return c.seq_eq(result, c.call(target, self, other))

        def ghost_inverse(c, self, other, result):
            return result.meta["ginv"]

        modifies = ()

    return _K


_operator("Perm.__add__", "Perm.direct_sum")
_operator("Perm.__sub__", "Perm.skew_sum")
_operator("Perm.__mul__", "Perm.compose")


# ------------------------------------------------------------------ standardisation (C09)
def _std_post(c, xs, result):
    n = c.len(xs)
    return c.and_(
        c.len(result) == n,
        c.is_perm(result),
        # the unique permutation order-isomorphic to xs with ties broken left to right
        c.forall2(0, n, lambda a, b: c.iff(result[a] < result[b], c.or_(xs[a] < xs[b], c.and_(xs[a] == xs[b], a < b)))),
    )


@contract("Perm._to_standard", params={"cls": "none", "iterable": "Seq"}, returns="Perm", props=("C09",))
class ToStandardCached:
    def requires(c, cls, iterable):
        return c.true()

    def ensures(c, cls, iterable, result):
        return _std_post(c, iterable, result)

    def ghost_inverse(c, cls, iterable, result):
        return result.meta["ginv"]  # the witness of the callee (Perm.inverse)

    modifies = ()


@contract("Perm.to_standard", params={"cls": "none", "iterable": "Seq"}, returns="Perm", props=("C09",))
class ToStandard:
    def requires(c, cls, iterable):
        return c.true()

    def ensures(c, cls, iterable, result):
        return _std_post(c, iterable, result)

    def ghost_inverse(c, cls, iterable, result):
        return result.meta["ginv"]

    modifies = ()
