"""C16 / C13 / C19: the decisions offered at several entry points are the stated combinations
of the underlying tests (which are ASSUMED here and decided by the bounded layer)."""
from pyvc.dsl import GHOST_IMPL, contract


def _pw():
    from permuta.permutils.pin_words import PinWords

    return PinWords


GHOST_IMPL["ALT"] = lambda b: int(bool(_pw().has_finite_alternations(b)))
GHOST_IMPL["W1"] = lambda b: int(bool(_pw().has_finite_wedges_type_1(b)))
GHOST_IMPL["W2"] = lambda b: int(bool(_pw().has_finite_wedges_type_2(b)))
GHOST_IMPL["PIN"] = lambda b: int(bool(_pw().has_finite_pinperms(b)))
GHOST_IMPL["FIN"] = lambda av: int(bool(av.is_finite()))
GHOST_IMPL["POLY"] = lambda av: int(bool(av.is_polynomial()))
BASIS = "Obj:Basis"
P = ("C16",)


def _assumed(qual, ghost):
    @contract(qual, params={"basis": BASIS}, returns="bool", props=P, assumed=True)  # staticmethods
    class _K:
        def requires(c, basis):
            return c.true()

        def ensures(c, basis, result):
            return c.iff(result, c.ghost(ghost, basis) == 1)

    return _K


_assumed("PinWords.has_finite_alternations", "ALT")
_assumed("PinWords.has_finite_wedges_type_1", "W1")
_assumed("PinWords.has_finite_wedges_type_2", "W2")


@contract("PinWords.has_finite_pinperms", params={"cls": "none", "basis": BASIS, "use_db": "bool", "dfa": "none"}, returns="bool", props=P, assumed=True)
class PinPermsAssumed:
    runtime_tempcwd = True
    defaults = {"use_db": False, "dfa": None}

    def requires(c, cls, basis, use_db, dfa):
        return c.true()

    def ensures(c, cls, basis, use_db, dfa, result):
        return c.iff(result, c.ghost("PIN", basis) == 1)


@contract("PinWords.has_finite_special_simples", params={"cls": "none", "basis": BASIS}, returns="bool", props=P)
class SpecialSimples:
    # no infinite family of parallel alternations, wedge simples of type 1, wedge simples of type 2
    def requires(c, cls, basis):
        return c.true()

    def ensures(c, cls, basis, result):
        return c.iff(result, c.and_(c.ghost("ALT", basis) == 1, c.ghost("W1", basis) == 1, c.ghost("W2", basis) == 1))

    modifies = ()


@contract("PinWords.has_finite_simples", params={"cls": "none", "basis": BASIS, "use_db": "bool", "check_all": "bool", "dfa": "none"}, returns="bool", props=P)
class HasFiniteSimples:
    runtime_tempcwd = True  # use_db=True reads / writes dfa_db/ relative to the working directory
    # finitely many simples iff none of the four families is unbounded - however it is queried
    defaults = {"use_db": False, "check_all": False, "dfa": None}

    def requires(c, cls, basis, use_db, check_all, dfa):
        return c.true()

    def ensures(c, cls, basis, use_db, check_all, dfa, result):
        return c.iff(result, c.and_(c.ghost("ALT", basis) == 1, c.ghost("W1", basis) == 1, c.ghost("W2", basis) == 1, c.ghost("PIN", basis) == 1))

    modifies = ()


AV = "Obj:Av,basis=Basis"


@contract("Av.is_finite", params={"self": AV}, returns="bool", props=P, assumed=True)
class AvIsFinite:
    def requires(c, self):
        return c.true()

    def ensures(c, self, result):
        return c.iff(result, c.ghost("FIN", self) == 1)


@contract("Av.is_polynomial", params={"self": AV}, returns="bool", props=P, assumed=True)
class AvIsPolynomial:
    def requires(c, self):
        return c.true()

    def ensures(c, self, result):
        return c.iff(result, c.ghost("POLY", self) == 1)


@contract("Av.has_finitely_many_simples", params={"self": AV}, returns="bool", props=P)
class AvHasFinitelyManySimples:
    # short-circuits through finite / polynomial classes, otherwise the four-family test on the basis
    def requires(c, self):
        return c.true()

    def ensures(c, self, result):
        b = self.basis
        fam = c.and_(c.ghost("ALT", b) == 1, c.ghost("W1", b) == 1, c.ghost("W2", b) == 1, c.ghost("PIN", b) == 1)
        return c.iff(result, c.or_(c.ghost("FIN", self) == 1, c.ghost("POLY", self) == 1, fam))

    modifies = ()
