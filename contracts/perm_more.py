"""More functions brought under contract (C01, C10, C11, C12, C19): wrappers of the occurrence
listing, right-to-left records, strong fixed points, sum/skew decomposability, sortedness test."""
from pyvc.dsl import GHOST_IMPL, contract

from . import occurrences as OCC


# ------------------------------------------------------------------ C01: occurrences_of
@contract("Perm.occurrences_of", params={"self": "Perm", "patt": "Perm"}, returns="TupleList", props=("C01",))
class OccurrencesOf:
    # the occurrences of patt in self: exactly patt.occurrences_in(self)
    def requires(c, self, patt):
        return c.and_(c.is_perm(self), c.is_perm(patt))

    def ensures(c, self, patt, result):
        return OCC._post(c, patt, self, result, None)

    modifies = ()


# ------------------------------------------------------------------ C11: right-to-left records
def _rtl_listing_def(c, p, name, better):
    """the positions of the right-to-left minima (maxima), listed FROM THE RIGHT: the definitional
    filter over r = 0..n-1 (r-th position from the right) of  'every entry further right is worse'"""
    n = c.len(p)
    return c.listing(name, 0, n, lambda r: c.forall(n - r, n, lambda j: better(p[n - 1 - r], p[j])), lambda r: n - 1 - r)


def _rtl_reverse_list(qual, better, start, extname):
    @contract(qual, params={"self": "Perm"}, returns="IntList", props=("C11",))
    class _K:
        def requires(c, self):
            return c.is_perm(self)

        def ensures(c, self, result):
            return c.seq_eq(result, _rtl_listing_def(c, self, qual, better))

        @staticmethod
        def _inv(c, st, k):
            p, lis = st.self, st.lis
            n = c.len(p)
            L = _rtl_listing_def(c, p, qual, better)
            ext = getattr(st, extname)
            return c.and_(
                st.n == n,
                c.len(lis) == c.count_upto(L, k),
                c.forall(0, c.len(lis), lambda j: lis[j] == L[j]),
                c.forall(n - k, n, lambda j: c.or_(better(ext, p[j]), ext == p[j])),
                c.implies(k == 0, ext == start(c, p)),
                c.implies(k > 0, c.exists(n - k, n, lambda j: p[j] == ext)),
            )

        invariants = {0: lambda c, st, k: _K._inv(c, st, k)}
        modifies = ()

    return _K


_rtl_reverse_list("Perm._rtlmin_reverse_list", lambda a, b: a < b, lambda c, p: c.len(p), "min_val")
_rtl_reverse_list("Perm._rtlmax_reverse_list", lambda a, b: a > b, lambda c, p: c.int(-1), "max_val")


def _rtl_listing(qual, helper, better):
    @contract(qual, params={"self": "Perm"}, returns="gen", props=("C11",))
    class _K:
        # the same positions in increasing order: the reverse of the listing from the right
        def requires(c, self):
            return c.is_perm(self)

        def ensures(c, self, result):
            L = _rtl_listing_def(c, self, helper, better)
            m = c.len(L)
            return c.and_(c.len(result) == m, c.forall(0, m, lambda t: result[t] == L[m - 1 - t]))

        modifies = ()

    return _K


_rtl_listing("Perm.rtlmin", "Perm._rtlmin_reverse_list", lambda a, b: a < b)
_rtl_listing("Perm.rtlmax", "Perm._rtlmax_reverse_list", lambda a, b: a > b)


def _rtl_count(qual, helper, better):
    @contract(qual, params={"self": "Perm"}, returns="int", props=("C11",))
    class _K:
        def requires(c, self):
            return c.is_perm(self)

        def ensures(c, self, result):
            return result == c.len(_rtl_listing_def(c, self, helper, better))

        modifies = ()

    return _K


_rtl_count("Perm.count_rtlmin", "Perm._rtlmin_reverse_list", lambda a, b: a < b)
_rtl_count("Perm.count_rtlmax", "Perm._rtlmax_reverse_list", lambda a, b: a > b)


# ------------------------------------------------------------------ C11: strong fixed points
@contract("Perm.strong_fixed_points", params={"self": "Perm"}, returns="gen", props=("C11",))
class StrongFixedPoints:
    # the fixed points that are left-to-right maxima, in increasing order
    def requires(c, self):
        return c.is_perm(self)

    def ensures(c, self, result):
        def strong(i):
            return c.and_(i >= 0, i < c.len(self), lambda: c.and_(self[i] == i, c.forall(0, i, lambda j: self[j] < self[i])))

        return c.and_(
            c.forall(0, c.len(result) - 1, lambda t: result[t] < result[t + 1]),
            c.forall_int(lambda v: c.iff(c.member(v, result), strong(v))),
        )

    modifies = ()


# ------------------------------------------------------------------ C10 / C19: decomposability
def _prefix_is(c, p, i, lo):
    """the first i entries of p are exactly the values lo, ..., lo+i-1 (as sets)"""
    return c.forall_int(lambda v: c.iff(c.and_(v >= lo, v < lo + i), c.exists(0, i, lambda j: p[j] == v)))


def _sumdec(p):
    p = tuple(p)
    return int(any(set(p[:i]) == set(range(i)) for i in range(1, len(p))))


def _skewdec(p):
    p = tuple(p)
    n = len(p)
    return int(any(set(p[:i]) == set(range(n - i, n)) for i in range(1, n)))


GHOST_IMPL["SUMDEC"] = _sumdec
GHOST_IMPL["SKEWDEC"] = _skewdec


def _inv_of(c, p, v):
    if c.mode == "run":
        t = tuple(p)
        return t.index(v) if v in t else -10 ** 9
    return p.meta["ginv"](v)


def _prefix_exactly(c, p, i, lo):
    """the first i entries of the permutation p are exactly the values lo .. lo+i-1: every one of them
    lies in that range, and every value of the range sits in the prefix (its position is < i)"""
    return c.and_(c.forall(0, i, lambda j: c.and_(p[j] >= lo, p[j] < lo + i), pattern=(lambda j: p[j]) if c.mode == "sym" else None),
                  c.forall(lo, lo + i, lambda v: _inv_of(c, p, v) < i, pattern=(lambda v: _inv_of(c, p, v)) if c.mode == "sym" else None))


@contract("Perm.is_sum_decomposable", params={"self": "Perm"}, returns="bool", props=("C10", "C19"))
class SumDecomposable:
    # some proper non-empty prefix consists of exactly the smallest values
    def requires(c, self):
        return c.is_perm(self)

    def ensures(c, self, result):
        return c.iff(result, c.exists(1, c.len(self), lambda i: _prefix_exactly(c, self, i, 0)))

    # SUMDEC(p) is by definition the truth value of that condition
    def derived(c, self, result):
        return c.iff(result, c.ghost("SUMDEC", self) == 1)

    derived_rule = "GHOST-DEFINITION SUMDEC"
    modifies = ()


@contract("Perm.is_skew_decomposable", params={"self": "Perm"}, returns="bool", props=("C10", "C19"))
class SkewDecomposable:
    # some proper non-empty prefix consists of exactly the largest values
    def requires(c, self):
        return c.is_perm(self)

    def ensures(c, self, result):
        n = c.len(self)
        return c.iff(result, c.exists(1, n, lambda i: _prefix_exactly(c, self, i, n - i)))

    def derived(c, self, result):
        return c.iff(result, c.ghost("SKEWDEC", self) == 1)

    derived_rule = "GHOST-DEFINITION SKEWDEC"
    modifies = ()


# ------------------------------------------------------------------ C12: sortedness test
@contract("Perm._is_sorted", params={"lis": "Seq"}, returns="bool", props=("C12",))
class IsSorted:
    def requires(c, lis):
        return c.true()

    def ensures(c, lis, result):
        return c.iff(result, c.forall(0, c.len(lis), lambda i: lis[i] == i))

    modifies = ()
