"""C19: the extension predicates of the core strategies, as the stated combinations of
'starts with its minimum', 'ends with its maximum' and sum / skew indecomposability of the stripped
permutation (the decomposability tests themselves are verified in contracts/perm_more.py)."""
from pyvc.dsl import contract

P = ("C19",)
CS = "permuta.enumeration_strategies.core_strategies:"


def _skewdec(c, q):
    """q is skew-decomposable: SKEWDEC(q) = 1, the ghost whose meaning ("some proper prefix consists of
    exactly the largest values") is fixed by the verified contract of Perm.is_skew_decomposable"""
    return c.ghost("SKEWDEC", q) == 1


def _sumdec(c, q):
    return c.ghost("SUMDEC", q) == 1


def _req(c, perm):
    return c.and_(c.is_perm(perm), c.len(perm) > 0)


@contract(CS + "zero_plus_skewind", params={"perm": "Perm"}, returns="bool", props=P)
class ZeroPlusSkewInd:
    # perm = 1 (+) q with q skew-indecomposable
    def requires(c, perm):
        return _req(c, perm)

    def ensures(c, perm, result):
        return c.iff(result, c.and_(perm[0] == 0, lambda: c.not_(_skewdec(c, c.call(CS + "fstrip", perm)))))

    modifies = ()


@contract(CS + "zero_plus_sumind", params={"perm": "Perm"}, returns="bool", props=P)
class ZeroPlusSumInd:
    def requires(c, perm):
        return _req(c, perm)

    def ensures(c, perm, result):
        return c.iff(result, c.and_(perm[0] == 0, lambda: c.not_(_sumdec(c, c.call(CS + "fstrip", perm)))))

    modifies = ()


def _ext(qual, spec):
    @contract(qual, params={"patt": "Perm"}, returns="bool", props=P)
    class _K:
        def requires(c, patt):
            return _req(c, patt)

        def ensures(c, patt, result):
            return c.iff(result, spec(c, patt))

        modifies = ()

    return _K


def _zp_skew(c, p):
    return c.and_(p[0] == 0, lambda: c.not_(_skewdec(c, c.call(CS + "fstrip", p))))


def _zp_sum(c, p):
    return c.and_(p[0] == 0, lambda: c.not_(_sumdec(c, c.call(CS + "fstrip", p))))


_ext("RuCuCoreStrategy.is_valid_extension", _zp_skew)
_ext("RdCdCoreStrategy.is_valid_extension", _zp_sum)
_ext("RuCuRdCdCoreStrategy.is_valid_extension", lambda c, p: p[0] == 0)
_ext("RuCuCdCoreStrategy.is_valid_extension", _zp_skew)


def _ext2(qual, spec):
    @contract(qual, params={"patt": "Perm"}, returns="bool", props=P)
    class _K:
        # precondition len >= 2: for the one-point permutation bstrip() returns the empty permutation and
        # the helper's `assert len(perm) > 0` fires - recorded as a known finding of C19, not part of this contract
        def requires(c, patt):
            return c.and_(c.is_perm(patt), c.len(patt) >= 2)

        def ensures(c, patt, result):
            return c.iff(result, spec(c, patt))

        modifies = ()

    return _K


def _zp_sum_b(c, p):
    q = c.call(CS + "bstrip", p)
    return c.and_(q[0] == 0, lambda: c.not_(_sumdec(c, c.call(CS + "fstrip", q))))


_ext2("RdCdCuCoreStrategy.is_valid_extension", _zp_sum_b)
_ext2("RdCuCoreStrategy.is_valid_extension", lambda c, p: c.and_(_zp_skew(c, p), lambda: _zp_sum_b(c, p)))
