"""C17: the maximal shading of an occurrence = complement of the occupied cells.

cell of a non-occurrence point (j, perm[j]) = (number of occurrence positions before j, number of
occurrence values below perm[j]); the counts are prefix counts of definitional listings."""
from pyvc.dsl import contract

Q = "permuta.bisc.bisc_subfunctions:maximal_mesh_pattern_of_occurrence"


def _L(c, perm, occ):
    n = c.len(perm)
    L1 = c.listing(Q + "/positions", 0, n, lambda j: c.member(j, occ))
    L2 = c.listing(Q + "/values", 0, n, lambda v: c.exists(0, c.len(occ), lambda t: perm[occ[t]] == v))
    return L1, L2


def _in_con(c, perm, occ, v):
    return c.exists(0, c.len(occ), lambda t: perm[occ[t]] == v)


@contract(Q, params={"perm": "Perm", "occ": "Seq"}, returns="CellSet", props=("C17",))
class MaximalMeshPatternOfOccurrence:
    def requires(c, perm, occ):
        n, k = c.len(perm), c.len(occ)
        return c.and_(
            c.is_perm(perm),
            c.forall(0, k, lambda t: c.and_(0 <= occ[t], occ[t] < n)),
            c.forall2(0, k, lambda s, t: c.implies(s < t, occ[s] < occ[t])),
        )

    def ensures(c, perm, occ, result):
        n, k = c.len(perm), c.len(occ)
        L1, L2 = _L(c, perm, occ)
        return c.forall_cell(lambda u, w: c.iff(
            c.in_set(c.cell(u, w), result),
            c.and_(0 <= u, u <= k, 0 <= w, w <= k,
                   c.forall(0, n, lambda j: c.implies(c.not_(c.member(j, occ)),
                                                      lambda: c.not_(c.and_(c.count_upto(L1, j) == u, c.count_upto(L2, perm[j]) == w))))),
        ))

    @staticmethod
    def _inv0(c, st, j):
        perm, occ = st.perm, st.occ
        n = c.len(perm)
        L1, _L2 = _L(c, perm, occ)
        g = perm.meta["ginv"]
        return c.and_(
            st.colcnt == c.count_upto(L1, j),
            c.len(st.col) == n,
            c.forall(0, n, lambda v: c.iff(st.col[v] != -1, c.and_(g(v) < j, c.not_(_in_con(c, perm, occ, v))))),
            c.forall(0, n, lambda v: c.implies(st.col[v] != -1, st.col[v] == c.count_upto(L1, g(v)))),
        )

    @staticmethod
    def _inv1(c, st, v0):
        perm, occ = st.perm, st.occ
        n = c.len(perm)
        L1, L2 = _L(c, perm, occ)
        g = perm.meta["ginv"]
        return c.and_(
            st.rowcnt == c.count_upto(L2, v0),
            c.len(st.row) == n, c.len(st.col) == n,
            c.forall(0, n, lambda v: c.iff(st.row[v] != -1, c.and_(v < v0, c.not_(_in_con(c, perm, occ, v))))),
            c.forall(0, n, lambda v: c.implies(st.row[v] != -1, st.row[v] == c.count_upto(L2, v))),
            # facts about col established by the first loop
            c.forall(0, n, lambda v: c.iff(st.col[v] != -1, c.not_(_in_con(c, perm, occ, v)))),
            c.forall(0, n, lambda v: c.implies(st.col[v] != -1, st.col[v] == c.count_upto(L1, g(v)))),
        )

    invariants = {0: lambda c, st, k: MaximalMeshPatternOfOccurrence._inv0(c, st, k),
                  1: lambda c, st, k: MaximalMeshPatternOfOccurrence._inv1(c, st, k)}
    modifies = ()
