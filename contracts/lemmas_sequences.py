"""Facts about finite integer sequences that the sorting-operator contracts use through Skolem spec functions
(DESIGN 3.3).  Each is PROVED here once for an arbitrary sequence, with the function defined by recursion, by
induction on the index; the engine then uses the same statement at other sequences (slices, copies) as
instances of the proved fact.

prefix_argmax:  r(0) = 0, r(j+1) = j+1 if t[j+1] > t[r(j)] else r(j)  satisfies the two PREFIX-ARGMAX axioms
                (0 <= r(j) <= j;  every entry among t[0..j] is <= t[r(j)])."""
from pyvc.dsl import lemma

P = ("C12",)


@lemma("prefix_argmax_exists", {"t": "Seq"}, props=P)
def prefix_argmax_exists(c, t):
    n = c.len(t)

    def fact(i):
        r = c.rec_prefix_argmax(t, i)
        return c.and_(r >= 0, r <= i, c.forall(0, c.int(i) + 1, lambda k: t[k] <= t[r], pattern=(lambda k: t[k]) if c.mode == "sym" else None))

    return [("argmax", 0, n - 1, fact, ())]


prefix_argmax_exists.runtime_domain = lambda quick: [(t,) for t in ((), (0,), (1, 0), (0, 1), (2, 2, 1), (0, 2, 1, 3), (3, 1, 3, 0, 2), (-1, -1, 0))]


# next_greater:  g(p, 0) = n,  g(p, d+1) = n-d-1 if t[n-d-1] > t[p] else g(p, d)  (the first position >= n-d with an
#                entry larger than t[p]);  ng(p) = g(p, n-p-1) satisfies the NEXT-GREATER axioms
#                (p < ng(p) <= n;  ng(p) = n or t[ng(p)] > t[p];  every entry strictly between is <= t[p]).
@lemma("next_greater_exists", {"t": "Seq"}, props=P)
def next_greater_exists(c, t):
    n = c.len(t)
    sym = c.mode == "sym"

    def q(p, d):
        g = c.rec_first_greater_from_end(t, p, d)
        return c.and_(g >= n - d, g <= n, c.or_(g == n, lambda: t[g] > t[p]),
                      c.forall(n - d, g, lambda m: t[m] <= t[p], pattern=(lambda m: t[m]) if sym else None))

    def fact(i):
        return c.forall(0, n, lambda p: c.forall(0, c.int(i) + 1, lambda d: c.implies(d <= n, lambda: q(p, d)),
                                                 pattern=(lambda d: c.rec_first_greater_from_end(t, p, d)) if sym else None))

    def final(_i):
        # the statement used as NEXT-GREATER, with ng(p) := g(p, n-p-1)
        def per(p):
            g = c.rec_first_greater_from_end(t, p, n - p - 1)
            return c.and_(g > p, g <= n, c.or_(g == n, lambda: t[g] > t[p]), c.forall(c.int(p) + 1, g, lambda m: t[m] <= t[p], pattern=(lambda m: t[m]) if sym else None))

        return c.forall(0, n, per)

    return [("first_greater", 0, n, fact, ()), ("next_greater", n, n, final, ("first_greater",))]


next_greater_exists.runtime_domain = prefix_argmax_exists.runtime_domain


# run decomposition:  lo(0) = 0, lo(j+1) = lo(j) if t[j] > t[j+1] else j+1;   h(0) = n, h(d+1) = h(d) if
#                     t[n-2-d] > t[n-1-d] else n-1-d  (h(d) belongs to index n-1-d);  with hi(j) = h(n-1-j) the three
#                     RUN-DECOMPOSITION axioms hold: bounds, maximality (a non-descent or the end at both borders),
#                     pairwise decreasing inside.
@lemma("run_decomposition_exists", {"t": "Seq"}, props=P)
def run_decomposition_exists(c, t):
    n = c.len(t)
    sym = c.mode == "sym"
    pair = (lambda x, y: (t[x], t[y])) if sym else None

    def left(i):  # for every j <= i: the stretch [lo(j), j] is a decreasing run that cannot be extended to the left
        def per(j):
            lo = c.rec_run_lo(t, j)
            return c.and_(lo >= 0, lo <= j, c.or_(lo == 0, lambda: t[lo - 1] <= t[lo]),
                          c.forall2(lo, c.int(j) + 1, lambda x, y: c.implies(x < y, lambda: t[x] > t[y]), pattern=pair))

        return c.forall(0, c.int(i) + 1, lambda j: c.implies(j < n, lambda: per(j)), pattern=(lambda j: c.rec_run_lo(t, j)) if sym else None)

    def right(i):  # for every d <= i (index j = n-1-d): [j, h(d)) is a decreasing run that cannot be extended to the right
        def per(d):
            j = n - 1 - d
            h = c.rec_run_hi_from_end(t, d)
            return c.and_(h > j, h <= n, c.or_(h == n, lambda: t[h - 1] <= t[h]),
                          c.forall2(j, h, lambda x, y: c.implies(x < y, lambda: t[x] > t[y]), pattern=pair))

        return c.forall(0, c.int(i) + 1, lambda d: c.implies(d < n, lambda: per(d)), pattern=(lambda d: c.rec_run_hi_from_end(t, d)) if sym else None)

    def final(_i):  # the statement used as RUN-DECOMPOSITION
        def per(j):
            lo, hi = c.rec_run_lo(t, j), c.rec_run_hi_from_end(t, n - 1 - j)
            return c.and_(lo >= 0, lo <= j, hi > j, hi <= n,
                          c.or_(lo == 0, lambda: t[lo - 1] <= t[lo]), c.or_(hi == n, lambda: t[hi - 1] <= t[hi]),
                          c.forall2(lo, hi, lambda x, y: c.implies(x < y, lambda: t[x] > t[y]), pattern=pair))

        return c.forall(0, n, per)

    return [("left", 0, n - 1, left, ()), ("right", 0, n - 1, right, ()), ("runs", n, n, final, ("left", "right"))]


run_decomposition_exists.runtime_domain = prefix_argmax_exists.runtime_domain


# ---------------------------------------------------------------- sums (C11: depth, major_index)
P11 = ("C11",)


# FILTER-SUM: for arbitrary integer sequences t (values) and m (marks; index i is selected iff m[i] > 0), the sum of the
# filtered listing F = [t[i] for i in range(n) if m[i] > 0] - prefix sums P over F, what sum() computes - equals the sum
# over the WHOLE range of "t[i] if selected else 0":  P(cnt(i)) = WS(i) for every i <= n, by induction on i (cnt is the
# prefix count of the listing).  The engine's rule filter-sum uses this statement at other filters.
@lemma("filter_sum", {"t": "Seq", "m": "Seq"}, props=P11)
def filter_sum(c, t, m):
    n = c.len(t)
    F = c.listing("lemma.filter_sum", 0, n, lambda i: m[i] > 0, lambda i: t[i])

    def fact(i):
        return c.implies(c.len(m) == n,
                         lambda: c.rec_psum("lemma.filter_sum", F, c.count_upto(F, i)) == c.wsum_upto("lemma.filter_sum", 0, n, lambda k: c.ite(m[k] > 0, t[k], 0), i))

    return [("filter_sum", 0, n, fact, ())]


filter_sum.runtime_domain = lambda quick: [(t, m) for t in ((), (3,), (1, -2), (0, 5, 7), (2, 2, -1, 4)) for m in ((), (1,), (0, 1), (1, 0, 1), (0, 0, 0), (1, 1, 0, 1), (0, 1, 1, 0)) if len(t) == len(m)]


# SUM-CONGRUENCE: two sums over index ranges of the same length with pointwise equal summands are equal (induction on
# the number of terms).  The engine's rule sum-congruence (c.sum_eq) uses this statement at other summands.
@lemma("sum_congruence", {"a": "Seq", "b": "Seq"}, props=P11)
def sum_congruence(c, a, b):
    n = c.len(a)

    def fact(i):
        return c.implies(c.and_(c.len(b) == n, c.forall(0, i, lambda k: a[k] == b[k])),
                         lambda: c.wsum_upto("lemma.cong.a", 0, n, lambda k: a[k], i) == c.wsum_upto("lemma.cong.b", 0, n, lambda k: b[k], i))

    return [("sum_congruence", 0, n, fact, ())]


sum_congruence.runtime_domain = lambda quick: [(a, b) for a in ((), (1,), (2, -3), (0, 4, 4)) for b in ((), (1,), (2, -3), (2, 5), (0, 4, 4), (0, 4, 5)) if len(a) == len(b)]


# ASCENDING-RUN START: the recursively defined lo(j) (c.rec_asc_lo: lo(0) = 0, lo(j+1) = lo(j) if t[j] < t[j+1] else j+1)
# IS the start of the maximal ascending run ending at j: 0 <= lo(j) <= j, the entries ascend from lo(j) to j, and the
# run cannot be extended to the left (lo(j) = 0 or a non-ascent just before it).  This is what makes "j - lo(j) + 1"
# in the contract of Perm.longestruns_ascending the length of the maximal ascending run ending at j.
@lemma("ascending_run_start", {"t": "Seq"}, props=P11)
def ascending_run_start(c, t):
    n = c.len(t)
    sym = c.mode == "sym"

    def left(i):
        def per(j):
            lo = c.rec_asc_lo(t, j)
            return c.and_(lo >= 0, lo <= j, c.or_(lo == 0, lambda: c.not_(t[lo - 1] < t[lo])),
                          c.forall(lo, j, lambda x: t[x] < t[x + 1], pattern=(lambda x: t[x]) if sym else None))

        return c.forall(0, c.int(i) + 1, lambda j: c.implies(j < n, lambda: per(j)), pattern=(lambda j: c.rec_asc_lo(t, j)) if sym else None)

    return [("asc_left", 0, n - 1, left, ())]


ascending_run_start.runtime_domain = prefix_argmax_exists.runtime_domain


# DESCENDING = ASCENDING OF THE COMPLEMENT: for a permutation p and q = p.complement() (by the contract of
# Perm.complement), the start of the maximal ascending run of q ending at j is the start of the maximal DESCENDING run of p
# ending at j (c.rec_run_lo, the function of lemma run_decomposition_exists) - so the contract of
# Perm.longestruns_descending, stated through the complement, speaks about the descending runs of p itself.
@lemma("descending_runs_via_complement", {"p": "Perm"}, props=P11)
def descending_runs_via_complement(c, p):
    n = c.len(p)
    q = c.call("Perm.complement", p)

    def fact(i):
        return c.implies(i < n, lambda: c.rec_asc_lo(q, i) == c.rec_run_lo(p, i))

    return [("same_start", 0, n - 1, fact, ())]


descending_runs_via_complement.runtime_domain = lambda quick: [(t,) for t in ((), (0,), (1, 0), (0, 1), (2, 0, 1), (0, 2, 1, 3), (3, 1, 4, 0, 2), (4, 3, 2, 1, 0))]
