"""C04: containment of classical patterns is equivariant under the generators of the symmetry group.

For reverse, complement and inverse: every occurrence t of p in q is carried to an occurrence of the
image of p in the image of q by an explicit map on index tuples (mirror the positions / keep them /
read the occurrence by values).  Applied to the images and combined with the involution lemmas of
lemmas_c04.py this gives "q contains p  <=>  g.q contains g.p" for the three generators, hence for all
eight symmetries (each is a product of these; the products are identified in lemmas_c04.py).
Proved from the contracts only: Occ is the postcondition predicate of Perm.occurrences_in.
"""
from pyvc.dsl import lemma

from . import occurrences as OCC

P = ("C04",)


def _every(c, n, N, body):
    return c.forall_tuple(n, body, universe=(-1, N + 1) if c.mode == "run" else None)


@lemma("occurrences_equivariant_reverse", {"p": "Perm", "q": "Perm"}, props=P)
def occurrences_equivariant_reverse(c, p, q):
    n, N = c.len(p), c.len(q)
    rp, rq = c.call("Perm.reverse", p), c.call("Perm.reverse", q)

    def mirror(t):  # positions counted from the other end, in increasing order again
        return c.tuple_from("mirror", t, n, lambda s, j: N - 1 - OCC._at(c, s, n - 1 - j))

    return _every(c, n, N, lambda t: c.implies(OCC._occ(c, p, q, t), lambda: OCC._occ(c, rp, rq, mirror(t))))


@lemma("occurrences_equivariant_complement", {"p": "Perm", "q": "Perm"}, props=P)
def occurrences_equivariant_complement(c, p, q):
    n, N = c.len(p), c.len(q)
    cp, cq = c.call("Perm.complement", p), c.call("Perm.complement", q)
    return _every(c, n, N, lambda t: c.implies(OCC._occ(c, p, q, t), lambda: OCC._occ(c, cp, cq, t)))


@lemma("occurrences_equivariant_inverse", {"p": "Perm", "q": "Perm"}, props=P)
def occurrences_equivariant_inverse(c, p, q):
    n, N = c.len(p), c.len(q)
    ip, iq = c.call("Perm.inverse", p), c.call("Perm.inverse", q)

    def by_values(t):  # the values of the occurrence in increasing order: value w of p sits at position p^-1(w)
        return c.tuple_from("by_values", t, n, lambda s, w: OCC._at(c, q, OCC._at(c, s, OCC._inv(c, p, w))))

    return _every(c, n, N, lambda t: c.implies(OCC._occ(c, p, q, t), lambda: OCC._occ(c, ip, iq, by_values(t))))


def _contains_equivariant(name, sym, transfer):
    """q contains p  <=>  g.q contains g.p  (number of listed occurrences > 0 on both sides)"""

    @lemma(name, {"p": "Perm", "q": "Perm"}, props=P)
    def _l(c, p, q):
        gp, gq = c.call(sym, p), c.call(sym, q)
        R, Rg = c.call("Perm.occurrences_in", p, q), c.call("Perm.occurrences_in", gp, gq)
        return c.and_(c.forall(0, c.len(R), lambda m: c.len(Rg) > 0), c.forall(0, c.len(Rg), lambda m: c.len(R) > 0))

    # forward: the transfer lemma at (p, q); backward: the transfer lemma at the images, and g.g = id
    _l.uses_lemmas = [(transfer, lambda p, q: (p, q)), (transfer + "@images", lambda p, q: (p, q))]
    return _l


def _at_images(name, sym, base):
    """the transfer lemma instantiated at (g.p, g.q)"""

    @lemma(name, {"p": "Perm", "q": "Perm"}, props=P)
    def _l(c, p, q):
        return base(c, c.call(sym, p), c.call(sym, q))

    _l.runtime_cap = 40
    return _l


for _n, _sym, _base in (("reverse", "Perm.reverse", occurrences_equivariant_reverse),
                        ("complement", "Perm.complement", occurrences_equivariant_complement),
                        ("inverse", "Perm.inverse", occurrences_equivariant_inverse)):
    _at_images(f"occurrences_equivariant_{_n}@images", _sym, _base)
    _contains_equivariant(f"contains_equivariant_{_n}", _sym, f"occurrences_equivariant_{_n}")
    _base.runtime_cap = 60
