"""C17: BiSC's own containment test (perm_contains_cl_patt_many_shadings) agrees with mesh-pattern
containment: it answers True exactly when, for one of the given shadings R, some occurrence of the
classical pattern has no other point of the permutation in a cell of R - with the SAME notion of cell
(number of occurrence points to the left / below) as in the contract of MeshPatt.occurrences_in (C03)."""
from pyvc.dsl import contract
from pyvc.values import IntV

from . import occurrences as OCC

P = ("C17",)
Q = "permuta.bisc.bisc_subfunctions:perm_contains_cl_patt_many_shadings"


def _pj(c, t):
    return (lambda j: t[j]) if c.mode == "sym" else None


def _pr(c, Rs):
    """trigger for quantifiers over the index r of a candidate shading"""
    return (lambda r: c.index_mark(Rs, r)) if c.mode == "sym" else None


def _notin(c, t, n, q):
    return c.forall(0, n, lambda j: t[j] != q, pattern=_pj(c, t))


def _cell(c, perm, t, q):
    return c.count_below(t, q), c.count_below(c.through(perm, t), OCC._at(c, perm, q))


def _free_of(c, perm, n, t, R, upto=None):
    """no other point of perm lies in a cell of the shading R, for the occurrence t"""
    N = c.len(perm) if upto is None else upto

    def ok(q):
        x, y = _cell(c, perm, t, q)
        return c.implies(_notin(c, t, n, q), lambda: c.not_(c.in_set(c.cell(x, y), R)))

    return c.forall(0, N, ok, pattern=(lambda q: c.count_below(t, q)) if c.mode == "sym" else None)


def _outer(c, st, k):
    perm, patt, Rs = st.perm, st.patt, st.Rs
    n = c.len(patt)
    R = c.call("Perm.occurrences_in", patt, perm)
    return c.forall(0, k, lambda m: c.forall(0, c.len(Rs), lambda r: c.not_(_free_of(c, perm, n, R[m], Rs[r])), pattern=_pr(c, Rs)),
                    pattern=(lambda m: OCC._rowfun(R)(m.t)) if c.mode == "sym" else None)


def _inner(c, st, k2):
    perm, patt, Rs = st.perm, st.patt, st.Rs
    row, cand, hb = st.candidate_indices, st.candidate, st.hit_boxes
    n = c.len(patt)

    def misses(r):  # none of the boxes hit so far lies in the shading Rs[r]
        return c.forall(0, c.len(hb), lambda m: c.not_(c.in_set(c.cell(hb[m][0], hb[m][1]), Rs[r])),
                        pattern=(lambda m: [hb[m][0], hb[m][1]]) if c.mode == "sym" else None)

    return c.and_(
        st.x == c.count_below(row, k2),
        c.len(cand) == n,
        # for every candidate shading: the boxes hit so far avoid it  <=>  the points seen so far respect it
        c.forall(0, c.len(Rs), lambda r: c.iff(misses(r), _free_of(c, perm, n, row, Rs[r], upto=k2)), pattern=_pr(c, Rs)),
    )


def _domain(quick):
    import itertools
    import random

    from vlib import domains as D

    rng = random.Random(3)
    out = []
    for patt in D.perms_upto(2):
        k = len(patt)
        cells = [(x, y) for x in range(k + 1) for y in range(k + 1)]
        for perm in D.perms_upto(4):
            for _ in range(3):
                Rs = [frozenset(c_ for c_ in cells if rng.random() < dens) for dens in (0.2, 0.6) for _r in range(rng.randint(0, 2))]
                out.append((perm, patt, Rs))
    return out


@contract(Q, params={"perm": "Perm", "patt": "Perm", "Rs": "CellSetSeq"}, returns="bool", props=P)
class PermContainsManyShadings:
    def requires(c, perm, patt, Rs):
        return c.and_(c.is_perm(perm), c.is_perm(patt))

    def ensures(c, perm, patt, Rs, result):
        n = c.len(patt)
        R = c.call("Perm.occurrences_in", patt, perm)
        return c.iff(result, c.exists(0, c.len(R), lambda m: c.exists(0, c.len(Rs), lambda r: _free_of(c, perm, n, R[m], Rs[r]))))

    entry_lemmas = [("tuple_counts", lambda perm, patt, Rs: (IntV(patt.n),))]
    invariants = {0: _outer, 1: _inner}
    list_shapes = {"hit_boxes": 2}
    named_appends = True
    use_views = {"Perm.occurrences_in": "rows_shape"}  # this function only walks over the rows of the listing
    runtime_domain = staticmethod(_domain)
    modifies = ()
