"""Contracts of the mesh-pattern symmetries (C04).

A mesh pattern is (points of the underlying permutation, set of shaded cells); cell
(x, y) is the unit square between grid lines x-1, x and y-1, y.  Each symmetry maps
points as the Perm method of the same name does and maps the cells by THE SAME affine
map of the square (on cell indices: x -> n - x under a mirror of that axis).
"""
from pyvc.dsl import contract

P = ("C04",)


def _same_perm(c, a, b):
    return c.and_(c.len(a) == c.len(b), c.forall(0, c.len(a), lambda i: a[i] == b[i]))


@contract("MeshPatt.reverse", params={"self": "Mesh"}, returns="Mesh", props=P)
class MReverse:
    def requires(c, self):
        return c.is_mesh(self)

    def ensures(c, self, result):
        n = c.len(self.pattern)
        return c.and_(
            c.len(result.pattern) == n,
            c.forall(0, n, lambda i: result.pattern[n - 1 - i] == self.pattern[i]),
            c.forall_cell(lambda a, b: c.iff(c.shaded(result, a, b), c.shaded(self, n - a, b))),
            c.is_mesh(result),
        )

    modifies = ()


@contract("MeshPatt.complement", params={"self": "Mesh"}, returns="Mesh", props=P)
class MComplement:
    def requires(c, self):
        return c.is_mesh(self)

    def ensures(c, self, result):
        n = c.len(self.pattern)
        return c.and_(
            c.len(result.pattern) == n,
            c.forall(0, n, lambda i: result.pattern[i] == n - 1 - self.pattern[i]),
            c.forall_cell(lambda a, b: c.iff(c.shaded(result, a, b), c.shaded(self, a, n - b))),
            c.is_mesh(result),
        )

    modifies = ()


@contract("MeshPatt.inverse", params={"self": "Mesh"}, returns="Mesh", props=P)
class MInverse:
    def requires(c, self):
        return c.is_mesh(self)

    def ensures(c, self, result):
        n = c.len(self.pattern)
        return c.and_(
            c.len(result.pattern) == n,
            c.forall(0, n, lambda i: result.pattern[self.pattern[i]] == i),
            c.forall_cell(lambda a, b: c.iff(c.shaded(result, a, b), c.shaded(self, b, a))),
            c.is_mesh(result),
        )

    modifies = ()


@contract("MeshPatt.rotate", params={"self": "Mesh", "times": "int"}, returns="Mesh", props=P)
class MRotate:
    # one step = 90 degrees clockwise: point (i, v) -> (v, n-1-i); cell (x, y) -> (y, n-x)
    defaults = {"times": 1}

    def requires(c, self, times):
        return c.is_mesh(self)

    def ensures(c, self, times, result):
        n = c.len(self.pattern)
        t = c.mod(times, 4)
        sp, rp = self.pattern, result.pattern
        return c.and_(
            c.len(rp) == n,
            c.implies(t == 0, c.and_(c.forall(0, n, lambda i: rp[i] == sp[i]),
                                     c.forall_cell(lambda a, b: c.iff(c.shaded(result, a, b), c.shaded(self, a, b))))),
            c.implies(t == 1, c.and_(c.forall(0, n, lambda i: rp[sp[i]] == n - 1 - i),
                                     c.forall_cell(lambda a, b: c.iff(c.shaded(result, a, b), c.shaded(self, n - b, a))))),
            c.implies(t == 2, c.and_(c.forall(0, n, lambda i: rp[n - 1 - i] == n - 1 - sp[i]),
                                     c.forall_cell(lambda a, b: c.iff(c.shaded(result, a, b), c.shaded(self, n - a, n - b))))),
            c.implies(t == 3, c.and_(c.forall(0, n, lambda i: rp[n - 1 - sp[i]] == i),
                                     c.forall_cell(lambda a, b: c.iff(c.shaded(result, a, b), c.shaded(self, b, n - a))))),
            c.is_mesh(result),
        )

    modifies = ()
