"""C05: the greedy pruning of a sorted candidate list yields the minimal elements.

Patterns are ABSTRACT here (opaque ids); LE(a, b) = "a is contained in b" is an uninterpreted
preorder (reflexive, transitive).  Assumed about the input (established by the callers' sort, and
checked on real data by the bounded layer): the list is non-empty and sorted by a linear extension
of containment, i.e. a later element is contained in an earlier one only if they are equivalent.
Proved for every length: the result is a sub-list of the input, an antichain, and every input
element contains some result element (so the avoidance class is unchanged)."""
from pyvc.dsl import contract


def _le(c, a, b):
    return c.ghost("LE", a.fields["__id__"] if hasattr(a, "fields") else a, b.fields["__id__"] if hasattr(b, "fields") else b) == 1


def _preorder(c):
    return c.and_(
        c.forall_int(lambda a: c.ghost("LE", a, a) == 1),
        c.forall_int(lambda a: c.forall_int(lambda b: c.forall_int(lambda d: c.implies(c.and_(c.ghost("LE", a, b) == 1, c.ghost("LE", b, d) == 1), c.ghost("LE", a, d) == 1)))),
    )


def _requires(c, patts, empty_is_bottom):
    n = c.len(patts)
    return c.and_(
        n >= 1,
        _preorder(c),
        # sorted by a linear extension of containment
        c.forall2(0, n, lambda i, j: c.implies(c.and_(i < j, _le(c, patts[j], patts[i])), lambda: _le(c, patts[i], patts[j]))),
        # the pattern that takes the shortcut is below every pattern
        c.forall(0, n, lambda i: c.implies(empty_is_bottom(patts[i]), lambda: c.forall(0, n, lambda j: _le(c, patts[i], patts[j])))),
    )


def _ensures(c, patts, result):
    n, m = c.len(patts), c.len(result)
    return c.and_(
        c.forall(0, m, lambda t: c.exists(0, n, lambda j: c.eq(result[t], patts[j]))),                      # sub-list of the input
        c.forall2(0, m, lambda s, t: c.implies(s != t, c.not_(_le(c, result[s], result[t])))),            # antichain
        c.forall(0, n, lambda j: c.exists(0, m, lambda t: _le(c, result[t], patts[j]))),                   # every candidate is covered
    )


def _inv(c, st, k):
    patts, nb = st.patts, st.new_basis
    n, m = c.len(patts), c.len(nb)
    return c.and_(
        c.forall(0, m, lambda t: c.exists(0, k, lambda j: c.eq(nb[t], patts[j]))),
        c.forall2(0, m, lambda s, t: c.implies(s != t, c.not_(_le(c, nb[s], nb[t])))),
        c.forall(0, k, lambda j: c.exists(0, m, lambda t: _le(c, nb[t], patts[j]))),
    )


@contract("Basis._pruner", params={"cls": "none", "patts": "PattSeq"}, returns="Seq", props=("C05",))
class BasisPruner:
    def requires(c, cls, patts):
        # for classical patterns the empty permutation (length 0) is contained in everything
        return _requires(c, patts, lambda p: c.len(p) == 0)

    def ensures(c, cls, patts, result):
        return _ensures(c, patts, result)

    invariants = {0: _inv}
    modifies = ()


@contract("MeshBasis._pruner", params={"cls": "none", "patts": "MeshPattSeq"}, returns="Seq", props=("C05",))
class MeshBasisPruner:
    def requires(c, cls, patts):
        # only the UNSHADED empty pattern (the falsy mesh pattern) is contained in everything
        return _requires(c, patts, lambda p: c.not_(c.truthy(p)))

    def ensures(c, cls, patts, result):
        return _ensures(c, patts, result)

    invariants = {0: _inv}
    modifies = ()
