"""Lemmas over the symmetry contracts only (C04): the dihedral relations.

Each lemma is proved from the *contracts* of the functions it mentions (c.call
instantiates the callee's contract); at run time the same text calls the real
functions (bounded cross-check of the contracts)."""
from pyvc.dsl import lemma

P = ("C04",)


def R(c, p, k=1):
    return c.call("Perm.rotate", p, k)


@lemma("perm_rotate_additive", {"p": "Perm", "a": "int", "b": "int"}, props=P)
def perm_rotate_additive(c, p, a, b):
    # rotate is an action of the integers: rotate(a) then rotate(b) = rotate(a + b); in
    # particular r^4 = e and rotate(-1) is the inverse rotation
    return c.seq_eq(R(c, R(c, p, a), b), R(c, p, a + b))


@lemma("perm_rotate_4_identity", {"p": "Perm"}, props=P)
def perm_rotate_4_identity(c, p):
    return c.and_(c.seq_eq(R(c, R(c, R(c, R(c, p)))), p), c.seq_eq(R(c, p, 4), p), c.seq_eq(R(c, p, 0), p))


@lemma("perm_reflections_involutive", {"p": "Perm"}, props=P)
def perm_reflections_involutive(c, p):
    return c.and_(
        c.seq_eq(c.call("Perm.inverse", c.call("Perm.inverse", p)), p),
        c.seq_eq(c.call("Perm.reverse", c.call("Perm.reverse", p)), p),
        c.seq_eq(c.call("Perm.complement", c.call("Perm.complement", p)), p),
        c.seq_eq(c.call("Perm.flip_antidiagonal", c.call("Perm.flip_antidiagonal", p)), p),
        c.seq_eq(c.call("Perm.reverse_complement", c.call("Perm.reverse_complement", p)), p),
    )


@lemma("perm_srs_is_r_inverse", {"p": "Perm"}, props=P)
def perm_srs_is_r_inverse(c, p):
    # s r s = r^-1 for the reflections s
    def srs(name):
        return c.call(name, R(c, c.call(name, p)))

    rinv = R(c, p, -1)
    return c.and_(
        c.seq_eq(srs("Perm.inverse"), rinv),
        c.seq_eq(srs("Perm.reverse"), rinv),
        c.seq_eq(srs("Perm.complement"), rinv),
        c.seq_eq(srs("Perm.flip_antidiagonal"), rinv),
    )


@lemma("perm_named_products", {"p": "Perm"}, props=P)
def perm_named_products(c, p):
    r2 = R(c, p, 2)
    return c.and_(
        c.seq_eq(c.call("Perm.reverse_complement", p), r2),
        c.seq_eq(c.call("Perm.complement", c.call("Perm.reverse", p)), r2),
        c.seq_eq(c.call("Perm.reverse", c.call("Perm.complement", p)), r2),
        c.seq_eq(c.call("Perm.flip_antidiagonal", p), c.call("Perm.inverse", r2)),
        c.seq_eq(c.call("Perm.inverse", c.call("Perm.reverse", p)), R(c, p, 1)),
        c.seq_eq(c.call("Perm.complement", c.call("Perm.inverse", p)), R(c, p, 1)),
    )


def mesh_eq(c, a, b):
    n = c.len(a.pattern)
    return c.and_(
        c.len(b.pattern) == n,
        c.forall(0, n, lambda i: a.pattern[i] == b.pattern[i]),
        c.forall_cell(lambda x, y: c.iff(c.shaded(a, x, y), c.shaded(b, x, y))),
    )


def MR(c, m, k=1):
    return c.call("MeshPatt.rotate", m, k)


@lemma("mesh_rotate_additive", {"m": "Mesh", "a": "int", "b": "int"}, props=P)
def mesh_rotate_additive(c, m, a, b):
    return mesh_eq(c, MR(c, MR(c, m, a), b), MR(c, m, a + b))


@lemma("mesh_reflections_involutive", {"m": "Mesh"}, props=P)
def mesh_reflections_involutive(c, m):
    return c.and_(
        mesh_eq(c, c.call("MeshPatt.inverse", c.call("MeshPatt.inverse", m)), m),
        mesh_eq(c, c.call("MeshPatt.reverse", c.call("MeshPatt.reverse", m)), m),
        mesh_eq(c, c.call("MeshPatt.complement", c.call("MeshPatt.complement", m)), m),
    )


@lemma("mesh_srs_is_r_inverse", {"m": "Mesh"}, props=P)
def mesh_srs_is_r_inverse(c, m):
    def srs(name):
        return c.call(name, MR(c, c.call(name, m)))

    rinv = MR(c, m, -1)
    return c.and_(mesh_eq(c, srs("MeshPatt.inverse"), rinv), mesh_eq(c, srs("MeshPatt.reverse"), rinv), mesh_eq(c, srs("MeshPatt.complement"), rinv))


@lemma("mesh_action_commutes_with_get_perm", {"m": "Mesh", "k": "int"}, props=P)
def mesh_action_commutes_with_get_perm(c, m, k):
    # the underlying permutation of the image is the image of the underlying permutation
    return c.and_(
        c.seq_eq(MR(c, m, k).pattern, R(c, m.pattern, k)),
        c.seq_eq(c.call("MeshPatt.inverse", m).pattern, c.call("Perm.inverse", m.pattern)),
        c.seq_eq(c.call("MeshPatt.reverse", m).pattern, c.call("Perm.reverse", m.pattern)),
        c.seq_eq(c.call("MeshPatt.complement", m).pattern, c.call("Perm.complement", m.pattern)),
    )
