"""Contracts of the region tests, anchoring, shading-lemma side conditions and the cell
splitting of point insertion (C03, C06, C18)."""
from pyvc.dsl import contract


def _cell_ok(c, m, cell):
    n = c.len(m.pattern)
    return c.and_(0 <= c.int(cell[0]), c.int(cell[0]) <= n, 0 <= c.int(cell[1]), c.int(cell[1]) <= n)


@contract("MeshPatt.is_shaded", params={"self": "Mesh", "lower_left": "Cell", "upper_right": "Cell"}, returns="bool", props=("C06", "C18"))
class IsShadedRect:
    # every cell of the rectangle [left..right] x [lower..upper] is shaded
    def requires(c, self, ll, ur):
        return c.and_(c.is_mesh(self), _cell_ok(c, self, ll), _cell_ok(c, self, ur), c.int(ll[0]) <= c.int(ur[0]), c.int(ll[1]) <= c.int(ur[1]))

    def ensures(c, self, ll, ur, result):
        return c.iff(result, c.forall(ll[0], ur[0] + 1, lambda x: c.forall(ll[1], ur[1] + 1, lambda y: c.shaded(self, x, y))))

    def value(c, self, ll, ur):
        return c.forall(ll[0], ur[0] + 1, lambda x: c.forall(ll[1], ur[1] + 1, lambda y: c.shaded(self, x, y)))

    modifies = ()


@contract("MeshPatt.is_shaded@2", params={"self": "Mesh", "lower_left": "Cell", "upper_right": "none"}, returns="bool", props=("C06", "C18"))
class IsShadedCell:
    def requires(c, self, ll, ur):
        return c.and_(c.is_mesh(self), _cell_ok(c, self, ll))

    def ensures(c, self, ll, ur, result):
        return c.iff(result, c.shaded(self, ll[0], ll[1]))

    modifies = ()


@contract("MeshPatt.is_pointfree", params={"self": "Mesh", "lower_left": "Cell", "upper_right": "Cell"}, returns="bool", props=("C06", "C18"))
class IsPointfree:
    # no pattern point strictly inside the region spanned by the cells: index in [left, right),
    # value in [lower, upper)
    def requires(c, self, ll, ur):
        return c.and_(c.is_mesh(self), _cell_ok(c, self, ll), _cell_ok(c, self, ur), c.int(ll[0]) <= c.int(ur[0]), c.int(ll[1]) <= c.int(ur[1]))

    def ensures(c, self, ll, ur, result):
        p = self.pattern
        return c.iff(result, c.forall(ll[0], ur[0], lambda i: c.not_(c.and_(c.int(ll[1]) <= p[i], p[i] < c.int(ur[1])))))

    def value(c, self, ll, ur):
        p = self.pattern
        return c.forall(ll[0], ur[0], lambda i: c.not_(c.and_(c.int(ll[1]) <= p[i], p[i] < c.int(ur[1]))))

    modifies = ()


@contract("MeshPatt.has_anchored_point", params={"self": "Mesh"}, returns="bool*4", props=("C03", "C18"))
class HasAnchoredPoint:
    # (right, top, left, bottom): the whole boundary column / row is shaded
    def requires(c, self):
        return c.is_mesh(self)

    def ensures(c, self, result):
        n = c.len(self.pattern)
        return c.and_(
            c.iff(result[0], c.forall(0, n + 1, lambda i: c.shaded(self, n, i))),
            c.iff(result[1], c.forall(0, n + 1, lambda i: c.shaded(self, i, n))),
            c.iff(result[2], c.forall(0, n + 1, lambda i: c.shaded(self, 0, i))),
            c.iff(result[3], c.forall(0, n + 1, lambda i: c.shaded(self, i, 0))),
        )

    modifies = ()


@contract("MeshPatt.north_east_shading_lemma_conditions", params={"self": "Mesh", "pos": "Cell"}, returns="bool", props=("C18",))
class NorthEastConditions:
    # the six side conditions of the shading lemma for the cell north-east of a point
    def requires(c, self, pos):
        return c.and_(c.is_mesh(self), _cell_ok(c, self, pos))

    def ensures(c, self, pos, result):
        n = c.len(self.pattern)
        x, y = c.int(pos[0]), c.int(pos[1])
        sh = lambda a, b: c.shaded(self, a, b)  # noqa: E731
        return c.iff(
            result,
            c.and_(
                c.not_(sh(x, y)),                                           # the cell itself is unshaded
                x >= 1, c.implies(x >= 1, lambda: self.pattern[x - 1] == y - 1),     # a point sits at its south-west corner
                c.not_(sh(x - 1, y - 1)),                                   # the cell south-west of the point is unshaded
                c.not_(c.and_(sh(x, y - 1), sh(x - 1, y))),                 # at most one of the cells below / left is shaded
                c.forall(0, n + 1, lambda a: c.implies(c.and_(a != x - 1, a != x), c.implies(sh(a, y - 1), sh(a, y)))),   # row condition
                c.forall(0, n + 1, lambda b: c.implies(c.and_(b != y - 1, b != y), c.implies(sh(x - 1, b), sh(x, b)))),   # column condition
            ),
        )

    modifies = ()


@contract("MeshPatt.north_east_simul_shading_lemma_conditions", params={"self": "Mesh", "pos1": "Cell", "pos2": "Cell"}, returns="bool", props=("C18",))
class NorthEastSimulConditions:
    # the side conditions of the simultaneous shading lemma for the two cells (x, y) (upper, north-east of a
    # point) and (x, y-1) directly below it
    def requires(c, self, pos1, pos2):
        return c.and_(c.is_mesh(self), _cell_ok(c, self, pos1), _cell_ok(c, self, pos2), c.int(pos1[1]) >= c.int(pos2[1]))

    def ensures(c, self, pos1, pos2, result):
        n = c.len(self.pattern)
        x, y = c.int(pos1[0]), c.int(pos1[1])
        x2, y2 = c.int(pos2[0]), c.int(pos2[1])
        sh = lambda a, b: c.shaded(self, a, b)  # noqa: E731
        return c.iff(
            result,
            c.and_(
                x >= 1, c.implies(x >= 1, lambda: self.pattern[x - 1] == y - 1),     # a point sits at the south-west corner of the upper cell
                x2 == x, y2 == y - 1,                                       # the second cell is directly below the first
                c.not_(sh(x, y)), c.not_(sh(x, y - 1)),                     # neither cell is shaded
                c.not_(sh(x - 1, y)), c.not_(sh(x - 1, y - 1)),             # the two cells left of them (around the point) are unshaded
                c.forall(0, n + 1, lambda b: c.implies(c.and_(b != y, b != y - 1), c.implies(sh(x - 1, b), sh(x, b)))),   # column condition
                c.forall(0, n + 1, lambda a: c.implies(c.and_(a != x, a != x - 1), c.iff(sh(a, y), sh(a, y - 1)))),       # the two rows match
            ),
        )

    modifies = ()


@contract("MeshPatt._add_point_base_shading", params={"self": "Mesh", "x": "int", "y": "int"}, returns="CellSet", props=("C18",))
class AddPointBaseShading:
    # inserting a point into cell (x, y) splits column x and row y in two: a shaded cell (sx, sy)
    # becomes the cells {sx if sx <= x} u {sx+1 if sx >= x}  times  {sy if sy <= y} u {sy+1 if sy >= y}
    def requires(c, self, x, y):
        n = c.len(self.pattern)
        return c.and_(c.is_mesh(self), 0 <= c.int(x), c.int(x) <= n, 0 <= c.int(y), c.int(y) <= n)

    def ensures(c, self, x, y, result):
        def orig(a, t):  # original coordinate(s) that produce new coordinate a when splitting at t
            return lambda s: c.or_(c.and_(s == a, s <= t), c.and_(s + 1 == a, s >= t))

        def body(a, b):
            # (a, b) in result  <=>  exists shaded (sx, sy) mapping onto it; sx in {a, a-1}
            alts = []
            for sx in (a, a - 1):
                for sy in (b, b - 1):
                    alts.append(c.and_(c.shaded(self, sx, sy), orig(a, x)(sx), orig(b, y)(sy)))
            return c.iff(c.in_set(c.cell(a, b), result), c.or_(*alts))

        return c.forall_cell(body)

    modifies = ()


@contract("BivincularPatt._to_shading", params={"n": "nat", "adjacent_indices": "Seq", "adjacent_values": "Seq"}, returns="CellSetGen", props=("C03",))
class ToShading:
    # adjacency requirements become full shaded columns (indices) and full shaded rows (values)
    def requires(c, n, I, V):
        return c.and_(
            c.forall(0, c.len(I), lambda t: c.and_(0 <= I[t], I[t] <= n)),
            c.forall(0, c.len(V), lambda t: c.and_(0 <= V[t], V[t] <= n)),
        )

    def ensures(c, n, I, V, result):
        return c.forall_cell(
            lambda a, b: c.iff(
                c.in_set(c.cell(a, b), result),
                c.or_(c.and_(c.member(a, I), 0 <= b, b <= n), c.and_(c.member(b, V), 0 <= a, a <= n)),
            )
        )

    modifies = ()


@contract("BivincularPatt.get_adjacent_requirements", params={"self": "Mesh"}, returns="pair", props=("C03",))
class GetAdjacentRequirements:
    # (sorted indices of fully shaded columns, sorted indices of fully shaded rows)
    def requires(c, self):
        return c.is_mesh(self)

    def ensures(c, self, result):
        n = c.len(self.pattern)
        A, Bv = result[0], result[1]
        col_full = lambda x: c.and_(0 <= x, x <= n, c.forall(0, n + 1, lambda i: c.shaded(self, x, i)))  # noqa: E731
        row_full = lambda y: c.and_(0 <= y, y <= n, c.forall(0, n + 1, lambda i: c.shaded(self, i, y)))  # noqa: E731
        return c.and_(
            c.forall(0, c.len(A) - 1, lambda t: A[t] < A[t + 1]),
            c.forall(0, c.len(Bv) - 1, lambda t: Bv[t] < Bv[t + 1]),
            c.forall_int(lambda x: c.iff(c.member(x, A), col_full(x))),
            c.forall_int(lambda y: c.iff(c.member(y, Bv), row_full(y))),
        )

    modifies = ()


# ------------------------------------------------------------------ point insertion (C18)
def _split_image(c, m, x, y, a, b):
    """(a, b) is an image of a shaded cell of m when column x and row y are split in two."""
    def orig(v, t, s):
        return c.or_(c.and_(s == v, s <= t), c.and_(s + 1 == v, s >= t))

    alts = []
    for sx in (a, a - 1):
        for sy in (b, b - 1):
            alts.append(c.and_(c.shaded(m, sx, sy), orig(a, x, sx), orig(b, y, sy)))
    return c.or_(*alts)


@contract("MeshPatt._add_point_new_perm", params={"self": "Mesh", "x": "int", "y": "int"}, returns="Perm", props=("C18",))
class AddPointNewPerm:
    # the pattern with a new point at position x with value y, values >= y moved up (the body threads one
    # stateful iterator through two generator expressions: rule ITERATOR-SPLIT)
    def requires(c, self, x, y):
        n = c.len(self.pattern)
        return c.and_(c.is_mesh(self), 0 <= c.int(x), c.int(x) <= n, 0 <= c.int(y), c.int(y) <= n)

    def ensures(c, self, x, y, result):
        n = c.len(self.pattern)
        p = self.pattern
        return c.and_(
            c.len(result) == n + 1,
            result[x] == y,
            c.forall(0, n, lambda i: result[c.ite(c.int(i) < x, i, i + 1)] == c.ite(p[i] < y, p[i], p[i] + 1)),
            c.is_perm(result),
        )

    def ghost_inverse(c, self, x, y, result):
        g = self.pattern.meta["ginv"]

        def where(v):
            v = c.int(v)
            p0 = g(c.ite(v < y, v, v - 1))  # position of the old value in the old pattern
            return c.ite(v == y, x, c.ite(p0 < x, p0, p0 + 1))

        return where


@contract("MeshPatt.add_point", params={"self": "Mesh", "pos": "Cell", "shade_dir": "int"}, returns="Mesh", props=("C18",))
class AddPoint:
    # new point in the (unshaded) cell pos; the shading is split along the new lines; a direction adds
    # the two cells on that side of the new point
    defaults = {"shade_dir": -1}

    def requires(c, self, pos, shade_dir):
        return c.and_(c.is_mesh(self), _cell_ok(c, self, pos), c.not_(c.shaded(self, pos[0], pos[1])))

    def ensures(c, self, pos, shade_dir, result):
        n = c.len(self.pattern)
        x, y = c.int(pos[0]), c.int(pos[1])
        p, r = self.pattern, result.pattern
        d = c.int(shade_dir)

        def extra(a, b):
            east = c.and_(d == 0, a == x + 1, c.or_(b == y, b == y + 1))
            north = c.and_(d == 1, b == y + 1, c.or_(a == x, a == x + 1))
            west = c.and_(d == 2, a == x, c.or_(b == y, b == y + 1))
            south = c.and_(d == 3, b == y, c.or_(a == x, a == x + 1))
            return c.or_(east, north, west, south)

        return c.and_(
            c.len(r) == n + 1,
            r[x] == y,
            c.forall(0, n, lambda i: r[c.ite(c.int(i) < x, i, i + 1)] == c.ite(p[i] < y, p[i], p[i] + 1)),
            c.forall_cell(lambda a, b: c.iff(c.shaded(result, a, b), c.or_(_split_image(c, self, x, y, a, b), extra(a, b)))),
            c.is_mesh(result),
        )

    modifies = ()


# --------------------------------------------------------------- induced sub-pattern (C06)
@contract("MeshPatt.sub_mesh_pattern", params={"self": "Mesh", "indices": "Seq"}, returns="Mesh", props=("C06",))
class SubMeshPattern:
    """The region bookkeeping of the induced sub-pattern.  The function's locals serve as ghost
    witnesses: `indices` (sorted), `vertical`, `horizontal` (grid lines of the chosen columns / rows,
    with sentinels 0 and n+1).  A cell (x, y) of the result is shaded iff the rectangle of ORIGINAL
    cells [vertical[x], vertical[x+1]-1] x [horizontal[y], horizontal[y+1]-1] is fully shaded and
    contains no original point strictly inside."""

    def requires(c, self, I):
        n = c.len(self.pattern)
        k = c.len(I)
        return c.and_(
            c.is_mesh(self),
            c.forall(0, k, lambda t: c.and_(0 <= I[t], I[t] < n)),
            c.forall2(0, k, lambda s, t: c.implies(s != t, I[s] != I[t])),
        )

    def ensures(c, self, I, result):
        return c.and_(c.len(result.pattern) == c.len(I), c.is_mesh(result))

    modifies = ()


def _sub_locals(c, st, result):
    m = st.self
    p = m.pattern
    n = c.len(p)
    J, vert, hor = st.indices, st.vertical, st.horizontal
    k = c.len(J)
    rp = result.pattern

    def full(x, y):
        return c.forall(vert[x], vert[x + 1], lambda a: c.forall(hor[y], hor[y + 1], lambda b: c.shaded(m, a, b)))

    def free(x, y):
        return c.forall(vert[x], vert[x + 1] - 1, lambda i: c.not_(c.and_(hor[y] <= p[i], p[i] < hor[y + 1] - 1)))

    return c.and_(
        # the chosen columns, sorted: the same indices as the argument
        k == c.len(st.__params__["indices"]),
        c.forall(0, k, lambda t: c.member(J[t], st.__params__["indices"])),
        c.forall(0, k, lambda t: c.member(st.__params__["indices"][t], J)),
        c.forall2(0, k, lambda s_, t: c.implies(s_ < t, J[s_] < J[t])),
        c.forall(0, k, lambda t: c.and_(0 <= J[t], J[t] < n)),
        # grid lines of the chosen columns and rows with sentinels
        c.len(vert) == k + 2, vert[0] == 0, vert[k + 1] == n + 1,
        c.forall(0, k, lambda t: vert[t + 1] == J[t] + 1),
        c.len(hor) == k + 2, hor[0] == 0, hor[k + 1] == n + 1,
        c.forall2(0, k + 2, lambda s_, t: c.implies(s_ < t, hor[s_] < hor[t])),
        c.forall(0, k, lambda s: c.exists(0, k, lambda t: hor[t + 1] == p[J[s]] + 1)),
        c.forall(0, k, lambda t: c.exists(0, k, lambda s: hor[t + 1] == p[J[s]] + 1)),
        # the underlying pattern is the standardisation of the chosen points, left to right
        c.len(rp) == k,
        c.forall2(0, k, lambda a, b: c.iff(rp[a] < rp[b], p[J[a]] < p[J[b]])),
        # the shading
        c.forall_cell(lambda x, y: c.iff(
            c.shaded(result, x, y),
            c.and_(0 <= x, x <= k, 0 <= y, y <= k, c.implies(c.and_(0 <= x, x <= k, 0 <= y, y <= k), lambda: c.and_(full(x, y), free(x, y)))),
        )),
    )


def _sub_after(c, st, idx):
    """Intermediate lemmas (cut points) that keep each solver query small."""
    p = st.self.pattern
    n = c.len(p)
    if idx == 0:  # indices = sorted(indices): strictly increasing, in range
        J = st.indices
        k = c.len(J)
        return c.and_(
            k == c.len(st.__params__["indices"]),
            c.forall(0, k, lambda t: c.and_(0 <= J[t], J[t] < n)),
            c.forall2(0, k, lambda s_, t: c.implies(s_ < t, J[s_] < J[t])),  # pairwise form (no induction needed later)
        )
    if idx == 5:  # vertical complete
        J, vert = st.indices, st.vertical
        k = c.len(J)
        return c.and_(c.len(vert) == k + 2, vert[0] == 0, vert[k + 1] == n + 1, c.forall(0, k, lambda t: vert[t + 1] == J[t] + 1),
                      c.forall2(0, k + 2, lambda s_, t: c.implies(s_ < t, vert[s_] < vert[t])))
    if idx == 8:  # horizontal complete
        J, hor = st.indices, st.horizontal
        k = c.len(J)
        return c.and_(c.len(hor) == k + 2, hor[0] == 0, hor[k + 1] == n + 1,
                      c.forall(1, k + 1, lambda t: c.and_(1 <= hor[t], hor[t] <= n)),
                      c.forall2(0, k + 2, lambda s_, t: c.implies(s_ < t, hor[s_] < hor[t])))
    return None


def _sub_oracle(self, indices, result):
    from props.c06 import spec_sub_mesh
    from specs import core as S

    return S.to_spec(result) == spec_sub_mesh(S.to_spec(self), list(indices))


SubMeshPattern.runtime_oracle = staticmethod(_sub_oracle)
SubMeshPattern.ensures_locals = staticmethod(_sub_locals)
SubMeshPattern.after_stmt = staticmethod(_sub_after)


# ----------------------------------------------------- transport by rotation (C18)
@contract("MeshPatt.can_shade", params={"self": "Mesh", "pos": "Cell"}, returns="Seq", props=("C18",))
class CanShade:
    """The north-east conditions are checked in the four orientations obtained by rotating pattern
    and cell together; the value reported for an orientation must name a point of the ORIGINAL
    pattern that sits on a corner of the original cell (a wrong rotation of the cell, or a wrong
    back-rotation of the answer, breaks this)."""

    def requires(c, self, pos):
        return c.and_(c.is_mesh(self), _cell_ok(c, self, pos))

    def ensures(c, self, pos, result):
        n = c.len(self.pattern)
        x, y = c.int(pos[0]), c.int(pos[1])
        p = self.pattern

        def names_corner_point(v):
            # v is the value of the point at index x-1 or x, and that value is y-1 or y
            return c.and_(
                c.or_(v == y - 1, v == y),
                c.or_(c.and_(x >= 1, c.implies(x >= 1, lambda: p[x - 1] == v)), c.and_(x < n, c.implies(x < n, lambda: p[x] == v))),
            )

        return c.and_(c.len(result) <= 4, c.forall(0, c.len(result), lambda t: names_corner_point(result[t])))

    modifies = ()


@contract("MeshPatt.can_simul_shade", params={"self": "Mesh", "pos1": "Cell", "pos2": "Cell"}, returns="Seq", props=("C18",))
class CanSimulShade:
    """Same transport argument for the simultaneous version: the two cells are rotated together with the
    pattern, re-ordered so that the upper one comes first, and every value reported names a point of the ORIGINAL
    pattern on a corner of one of the two ORIGINAL cells."""

    def requires(c, self, pos1, pos2):
        return c.and_(c.is_mesh(self), _cell_ok(c, self, pos1), _cell_ok(c, self, pos2))

    def ensures(c, self, pos1, pos2, result):
        n = c.len(self.pattern)
        p = self.pattern

        def corner_of(cell, v):
            x, y = c.int(cell[0]), c.int(cell[1])
            return c.and_(
                c.or_(v == y - 1, v == y),
                c.or_(c.and_(x >= 1, c.implies(x >= 1, lambda: p[x - 1] == v)), c.and_(x < n, c.implies(x < n, lambda: p[x] == v))),
            )

        return c.and_(c.len(result) <= 4, c.forall(0, c.len(result), lambda t: c.or_(corner_of(pos1, result[t]), corner_of(pos2, result[t]))))

    modifies = ()


# ------------------------------------------------ two points at once (add_increase / add_decrease, C18)
def _two_points(qual, increasing):
    @contract(qual, params={"self": "Mesh", "pos": "Cell"}, returns="Mesh", props=("C18",))
    class _K:
        # two new points in the (unshaded) cell pos, forming an ascent / a descent: column x and row y are each
        # split in THREE; a cell of the result is shaded iff the original cell it lies in is; every other point keeps
        # its place relative to the new lines
        def requires(c, self, pos):
            return c.and_(c.is_mesh(self), _cell_ok(c, self, pos), c.not_(c.shaded(self, pos[0], pos[1])))

        def ensures(c, self, pos, result):
            n = c.len(self.pattern)
            x, y = c.int(pos[0]), c.int(pos[1])
            p, r = self.pattern, result.pattern
            back = lambda v, t: c.ite(v <= t, v, c.ite(v <= t + 2, t, v - 2))  # noqa: E731  original column / row of a new one
            return c.and_(
                c.len(r) == n + 2,
                r[x] == (y if increasing else y + 1),
                r[x + 1] == (y + 1 if increasing else y),
                c.forall(0, n, lambda i: r[c.ite(c.int(i) < x, i, i + 2)] == c.ite(p[i] < y, p[i], p[i] + 2)),
                c.forall_cell(lambda a, b: c.implies(c.and_(a >= 0, a <= n + 2, b >= 0, b <= n + 2),
                                                     c.iff(c.shaded(result, a, b), c.shaded(self, back(a, x), back(b, y))))),
                c.is_mesh(result),
            )

        modifies = ()

    return _K


_two_points("MeshPatt.add_increase", True)
_two_points("MeshPatt.add_decrease", False)


@contract("MeshPatt.non_pointless_boxes", params={"self": "Mesh"}, returns="CellSet", props=("C18",))
class NonPointlessBoxes:
    # the cells that have a point of the pattern on one of their four corners
    def requires(c, self):
        return c.is_mesh(self)

    def ensures(c, self, result):
        p = self.pattern
        n = c.len(p)
        return c.forall_cell(lambda a, b: c.iff(
            c.in_set(c.cell(a, b), result),
            c.exists(0, n, lambda i: c.and_(c.or_(a == i, a == i + 1), c.or_(b == p[i], b == p[i] + 1)))))

    modifies = ()


def _shade(k):
    params = {"self": "Mesh"}
    params.update({f"positions#{i}": "Cell" for i in range(k)})

    @contract(f"MeshPatt.shade@{k + 1}", params=params, returns="Mesh", props=("C18",))
    class _K:
        # the same pattern; a cell is shaded iff it was shaded or is one of the given cells
        def requires(c, self, *cells):
            return c.and_(c.is_mesh(self), *[_cell_ok(c, self, cell) for cell in cells])

        def ensures(c, self, *args):
            cells, result = args[:-1], args[-1]
            return c.and_(
                c.seq_eq(result.pattern, self.pattern),
                c.forall_cell(lambda a, b: c.iff(c.shaded(result, a, b), c.or_(c.shaded(self, a, b), *[c.and_(a == c.int(cell[0]), b == c.int(cell[1])) for cell in cells]))),
                c.is_mesh(result),
            )

        modifies = ()

    return _K


for _k in (1, 2):
    _shade(_k)
