"""C03: occurrences of a mesh pattern in a permutation (MeshPatt._occurrences_in_perm), for all sizes.

Postcondition = the definition: the listing is, in strictly increasing lexicographic order, exactly
the occurrences t of the underlying pattern such that no other point of the permutation falls in a
shaded cell: for every position q that is not in t, the cell

        ( number of occurrence positions left of q ,  number of occurrence values below patt[q] )

is not shaded.  The two counts are the recursive spec function clt (count of entries below a bound);
the code's column counter is incremental, its row counter a filtered sum.  The classical listing is
used through the (verified) contract of Perm.occurrences_in.
"""
from pyvc.dsl import contract, lemma
from pyvc.values import IntV

from . import occurrences as OCC

P = ("C03",)


def _pj(c, t):
    return (lambda j: t[j]) if c.mode == "sym" else None


def _point_ok(c, mesh, patt, t, q):
    """position q is an occurrence point, or its cell is not shaded"""
    n = c.len(mesh.pattern)
    return c.implies(c.forall(0, n, lambda j: t[j] != q, pattern=_pj(c, t)),
                     lambda: c.not_(c.shaded(mesh, c.count_below(t, q), c.count_below(c.through(patt, t), OCC._at(c, patt, q)))))


def _mesh_ok(c, mesh, patt, t, upto=None):
    N = c.len(patt) if upto is None else upto
    return c.forall(0, N, lambda q: _point_ok(c, mesh, patt, t, q), pattern=(lambda q: c.count_below(t, q)) if c.mode == "sym" else None)


@lemma("tuple_counts", {"n": "nat"}, props=P)
def tuple_counts(c, n):
    """facts about clt (count of entries below a bound) of tuples of length n, by induction on the prefix"""
    sym = c.mode == "sym"

    def every(body):
        return c.forall_tuple(n, body, universe=(-1, 5) if not sym else None)

    def zero(i):  # nothing is below 0 among non-negative entries
        return every(lambda t: c.implies(c.and_(i <= n, c.forall(0, n, lambda j: t[j] >= 0, pattern=_pj(c, t))), lambda: c.count_below(t, 0, i) == 0))

    def step(i):  # raising the bound from q to q+1 counts the entry equal to q (at most one: t is increasing)
        def body(t):
            def per(q, q1):
                return c.implies(q1 == q + 1, lambda: c.and_(
                    c.implies(c.forall(0, i, lambda j: t[j] != q, pattern=_pj(c, t)), lambda: c.count_below(t, q1, i) == c.count_below(t, q, i)),
                    c.forall(0, i, lambda j0: c.implies(t[j0] == q, lambda: c.count_below(t, q1, i) == c.count_below(t, q, i) + 1), pattern=_pj(c, t))))

            pat = (lambda q, q1: (c.count_below(t, q, i), c.count_below(t, q1, i))) if sym else None
            return c.implies(c.and_(i <= n, OCC._incr(c, t, n)), lambda: c.forall2(-1, n + 7, per, pattern=pat) if not sym else _forall2_int(c, per, pat))

        return every(body)

    return [("zero", 0, n, zero, ()), ("step", 0, n, step, ())]


tuple_counts.runtime_domain = lambda quick: [(k,) for k in range(0, 4)]


def _forall_int(c, body, pat):
    if c.mode == "run":
        return all(body(v) for v in range(-2, 7))
    import z3

    from pyvc.values import B, fresh

    v = fresh("q")
    terms = pat(IntV(v)) if pat else None
    if terms:
        return c.and_(z3.ForAll([v], B(body(IntV(v))), patterns=[z3.MultiPattern(*[t.t for t in terms]) if len(terms) > 1 else terms[0].t]))
    return c.and_(z3.ForAll([v], B(body(IntV(v)))))


def _forall2_int(c, body, pat):
    import z3

    from pyvc.values import B, fresh

    q, q1 = fresh("q"), fresh("q")
    terms = pat(IntV(q), IntV(q1))
    return c.and_(z3.ForAll([q, q1], B(body(IntV(q), IntV(q1))), patterns=[z3.MultiPattern(*[t.t for t in terms])]))


def _len_of(mesh):
    return IntV(mesh.fields["pattern"].n)


def _outer_inv(c, st, k):
    mesh, patt, out = st.self, st.patt, st.__out__
    p = mesh.pattern
    n = c.len(p)
    R = c.call("Perm.occurrences_in", p, patt)

    def good(t):
        return c.and_(OCC._occ(c, p, patt, t), _mesh_ok(c, mesh, patt, t))

    return c.and_(
        c.forall(0, c.len(out), lambda m: c.and_(good(out[m]), c.forall(k, c.len(R), lambda m2: OCC._lexlt(c, out[m], R[m2], n)))),
        OCC._sorted_rows(c, out, n),
        # every good tuple among the classical occurrences processed so far is listed
        c.forall_tuple(n, lambda t: c.implies(c.and_(good(t), c.exists(0, k, lambda m1: c.same_tuple(R[m1], t))), lambda: OCC._listed_same(c, out, t))),
    )


def _inner_inv(c, st, k2):
    mesh, patt = st.self, st.patt
    row, cand = st.candidate_indices, st.candidate
    n = c.len(mesh.pattern)
    return c.and_(
        st.x == c.count_below(row, k2),
        c.len(cand) == n,
        _mesh_ok(c, mesh, patt, row, upto=k2),
    )


@contract("MeshPatt._occurrences_in_perm", params={"self": "Mesh", "patt": "Perm"}, returns="TupleList", props=P)
class MeshOccurrencesInPerm:
    def requires(c, self, patt):
        return c.and_(c.is_mesh(self), c.is_perm(patt))

    def ensures(c, self, patt, result):
        p = self.pattern
        n = c.len(p)
        uni = (-1, c.len(patt) + 1) if c.mode == "run" else None
        return c.and_(
            c.forall(0, c.len(result), lambda m: c.and_(OCC._occ(c, p, patt, result[m]), _mesh_ok(c, self, patt, result[m]))),
            OCC._sorted_rows(c, result, n),
            c.forall_tuple(n, lambda t: c.implies(c.and_(OCC._occ(c, p, patt, t), _mesh_ok(c, self, patt, t)), lambda: OCC._listed_same(c, result, t)), universe=uni),
        )

    entry_lemmas = [("tuple_counts", lambda self, patt: (_len_of(self),))]
    invariants = {0: _outer_inv, 1: _inner_inv}
    modifies = ()


@contract("MeshPatt.occurrences_in", params={"self": "Mesh", "patt": "Perm"}, returns="TupleList", props=P)
class MeshOccurrencesIn:
    # the public entry point with a permutation as target: dispatches to _occurrences_in_perm
    def requires(c, self, patt):
        return c.and_(c.is_mesh(self), c.is_perm(patt))

    def ensures(c, self, patt, result):
        return MeshOccurrencesInPerm.ensures(c, self, patt, result)

    # LISTING-CARDINALITY: OCCN(mesh, patt) is by definition the number of mesh occurrences, i.e. the
    # length of the strictly increasing listing of the occurrence set characterised above
    def derived(c, self, patt, result):
        return c.len(result) == c.ghost("OCCN", self, patt)

    derived_rule = "LISTING-CARDINALITY"
    modifies = ()


@contract("MeshPatt.occurrences_in@4", params={"self": "Mesh", "patt": "Perm", "args#0": "opaque", "args#1": "opaque"}, returns="TupleList", props=P)
class MeshOccurrencesInExtra(MeshOccurrencesIn):
    # the same entry point called with two further positional arguments (which the body never inspects):
    # this is how the bivincular-type subclasses call it
    def requires(c, self, patt, a0, a1):
        return c.and_(c.is_mesh(self), c.is_perm(patt))

    def ensures(c, self, patt, a0, a1, result):
        return MeshOccurrencesInPerm.ensures(c, self, patt, result)

    def derived(c, self, patt, a0, a1, result):
        return c.len(result) == c.ghost("OCCN", self, patt)

    @staticmethod
    def runtime_domain(quick):
        import random

        from pyvc import policy

        rng = random.Random(5)
        ms, ps = policy.domain("Mesh", quick), policy.domain("Perm", quick)
        return [(rng.choice(ms), rng.choice(ps), (), {}) for _ in range(400)]


def _bivincular_domain(quick):
    """bivincular, vincular and covincular patterns of length <= 3 with every adjacency set x permutations <= 4"""
    import itertools
    import random

    from vlib import domains as D
    from vlib import repo

    ns = repo.namespace()
    rng = random.Random(9)
    out = []
    targets = D.perms_upto(4)
    for p in D.perms_upto(2 if quick else 3):
        n = len(p)
        subsets = [s for r in range(n + 2) for s in itertools.combinations(range(n + 1), r)]
        for adj in subsets:
            objs = [ns["VincularPatt"](p, adj), ns["CovincularPatt"](p, adj)]
            for adj2 in rng.sample(subsets, min(3, len(subsets))):
                objs.append(ns["BivincularPatt"](p, adj, adj2))
            for o in objs:
                for q in rng.sample(targets, 6):
                    out.append((o, q))
    return out


@contract("BivincularPatt.occurrences_in", params={"self": "Mesh", "patt": "Perm"}, returns="TupleList", props=P)
class BivincularOccurrencesIn:
    # bivincular / vincular / covincular patterns: occurrences of the mesh pattern they denote
    def requires(c, self, patt):
        return c.and_(c.is_mesh(self), c.is_perm(patt))

    def ensures(c, self, patt, result):
        return MeshOccurrencesInPerm.ensures(c, self, patt, result)

    def derived(c, self, patt, result):
        return c.len(result) == c.ghost("OCCN", self, patt)

    derived_rule = "LISTING-CARDINALITY"
    modifies = ()


BivincularOccurrencesIn.runtime_domain = staticmethod(_bivincular_domain)
BivincularOccurrencesIn.runtime_cap = 1500
