"""C13: which of the ten minimal non-polynomial classes a permutation belongs to (PolyPerms._find_type).

Types 0-3: the permutation splits at some point into two monotone runs (incr/incr, incr/decr, decr/incr,
decr/decr); types 4-7: the same for its inverse; type 8: it is layered with layers of size at most two
(a direct sum of 1s and 21s); type 9: the same for its reverse.  The code walks over all split points
with two deques and collects the types it sees.
"""
from pyvc.dsl import contract

P = ("C13",)
PP = "PolyPerms."


def _incr(c, s, lo, hi):
    return c.forall(lo, hi - 1, lambda i: s[i] < s[i + 1])


def _decr(c, s, lo, hi):
    return c.forall(lo, hi - 1, lambda i: s[i] > s[i + 1])


def _mono(kind):
    @contract(PP + ("_is_incr" if kind == "incr" else "_is_decr"), params={"perm_slice": "Seq"}, returns="bool", props=P)
    class _K:
        def requires(c, perm_slice):
            return c.true()

        def ensures(c, perm_slice, result):
            f = _incr if kind == "incr" else _decr
            return c.iff(result, f(c, perm_slice, 0, c.len(perm_slice)))

        modifies = ()

    return _K


_mono("incr")
_mono("decr")


def _pair_types(qual, base):
    @contract(PP + qual, params={"slice1": "Seq", "slice2": "Seq"}, returns="IntSetGen", props=P)
    class _K:
        # the (up to four) types witnessed by this pair of runs
        def requires(c, slice1, slice2):
            return c.true()

        def ensures(c, slice1, slice2, result):
            i1, d1 = _incr(c, slice1, 0, c.len(slice1)), _decr(c, slice1, 0, c.len(slice1))
            i2, d2 = _incr(c, slice2, 0, c.len(slice2)), _decr(c, slice2, 0, c.len(slice2))
            return c.forall_int(lambda v: c.iff(c.in_set(v, result), c.or_(
                c.and_(v == base + 0, i1, i2), c.and_(v == base + 1, i1, d2), c.and_(v == base + 2, d1, i2), c.and_(v == base + 3, d1, d2))))

        modifies = ()

    return _K


_pair_types("_type_0_3", 0)
_pair_types("_type_4_7", 4)


def _layered(c, s, n):
    """a direct sum of blocks 1 and 21"""
    return c.forall(0, n, lambda i: c.or_(
        s[i] == i,
        c.and_(i + 1 < n, lambda: c.and_(s[i] == i + 1, s[i + 1] == i)),
        c.and_(i >= 1, lambda: c.and_(s[i] == i - 1, s[i - 1] == i))))


@contract(PP + "_of_type_8", params={"perm_slice": "Seq"}, returns="bool", props=P)
class OfType8:
    # (recursive on prefixes; partial correctness)
    def requires(c, perm_slice):
        n = c.len(perm_slice)
        return c.and_(c.forall(0, n, lambda i: c.and_(perm_slice[i] >= 0, perm_slice[i] < n)),
                      c.forall2(0, n, lambda i, j: c.implies(i != j, lambda: perm_slice[i] != perm_slice[j])))

    def ensures(c, perm_slice, result):
        return c.iff(result, _layered(c, perm_slice, c.len(perm_slice)))

    modifies = ()


def _cond(c, p, q, n, tv, s):
    """split point s witnesses type tv (0-3 on p, 4-7 on its inverse q)"""
    seq = p if tv < 4 else q
    first = _incr(c, seq, 0, s) if (tv % 4) < 2 else _decr(c, seq, 0, s)
    second = _incr(c, seq, s, n) if (tv % 2) == 0 else _decr(c, seq, s, n)
    return c.and_(first, second)


def _witnessed(c, p, q, n, tv, upto):
    # MARK(s) >= 0 is always true; it gives the quantifier over the split point a trigger
    return c.exists(0, upto + 1, lambda s: c.and_(c.ghost("MARK", s) >= 0, _cond(c, p, q, n, tv, s)))


def _loop(c, st, k):
    p = st.perm
    n = c.len(p)
    q = c.call("Perm.inverse", p)
    d1, d2, e1, e2, out = st.p_deq1, st.p_deq2, st.fp_deq1, st.fp_deq2, st.__out__
    return c.and_(
        c.len(d1) == k, c.len(d2) == n - k, c.len(e1) == k, c.len(e2) == n - k,
        c.forall(0, k, lambda j: c.and_(d1[j] == p[j], e1[j] == q[j]), pattern=(lambda j: [d1[j], e1[j], p[j], q[j]]) if c.mode == "sym" else None),
        c.forall(0, n - k, lambda j: c.and_(d2[j] == p[k + j], e2[j] == q[k + j]), pattern=(lambda j: [d2[j], e2[j]]) if c.mode == "sym" else None),
        c.forall(k, n, lambda i: c.and_(p[i] == d2[i - k], q[i] == e2[i - k]), pattern=(lambda i: [p[i], q[i]]) if c.mode == "sym" else None),
        c.forall_int(lambda v: c.implies(c.in_set(v, out), lambda: c.and_(v >= 0, v <= 7))),
        # one statement per type: it has been yielded iff some split point seen so far witnesses it
        *[c.iff(c.in_set(tv, out), _witnessed(c, p, q, n, tv, k)) for tv in range(8)],
    )


@contract(PP + "_find_type", params={"perm": "Perm"}, returns="IntSetGen", props=P)
class FindType:
    def requires(c, perm):
        return c.is_perm(perm)

    def ensures(c, perm, result):
        n = c.len(perm)
        q = c.call("Perm.inverse", perm)
        r = c.call("Perm.reverse", perm)
        return c.and_(
            c.forall_int(lambda v: c.implies(c.in_set(v, result), lambda: c.and_(v >= 0, v <= 9))),
            *[c.iff(c.in_set(tv, result), _witnessed(c, perm, q, n, tv, n)) for tv in range(8)],
            c.iff(c.in_set(8, result), _layered(c, perm, n)),
            c.iff(c.in_set(9, result), _layered(c, r, n)),
        )

    invariants = {0: _loop}
    named_appends = True
    modifies = ()


# ------------------------------------------------------------------ the verdict over a basis
# PolyPerms._types memoises frozenset(_find_type(perm)) in a class-level dictionary (MEMO-TABLE rule: cold path
# verified, warm path by the structural memo-invariant).  is_polynomial(basis) counts the distinct types found
# in the basis; there are ten types, so "the count is 10" says: every one of the ten minimal non-polynomial
# classes has a member among the basis elements (Homberger-Vatter / Albert-Atkinson-Brignall).
@contract(PP + "_types", params={"perm": "Perm"}, returns="IntSet", props=P)
class Types:
    def requires(c, perm):
        return c.is_perm(perm)

    def ensures(c, perm, result):
        found = c.call(PP + "_find_type", perm)
        return c.forall_int(lambda v: c.iff(c.in_set(v, result), c.in_set(v, found)))

    memo_tables = ("_CACHE",)
    modifies = ()


def _is_polynomial(k):
    @contract(PP + f"is_polynomial@{k}", params={"basis": f"Perm*{k}"}, returns="bool", props=P)
    class _K:
        def requires(c, basis):
            return c.and_(*[c.is_perm(b) for b in basis])

        def ensures(c, basis, result):
            found = [c.call(PP + "_find_type", b) for b in basis]
            return c.iff(result, c.and_(*[c.or_(*[c.in_set(t, f) for f in found]) for t in range(10)]))

        set_universe = (0, 10)
        modifies = ()

    return _K


def _is_non_polynomial(k):
    @contract(PP + f"is_non_polynomial@{k}", params={"basis": f"Perm*{k}"}, returns="bool", props=P)
    class _K:
        def requires(c, basis):
            return c.and_(*[c.is_perm(b) for b in basis])

        def ensures(c, basis, result):
            found = [c.call(PP + "_find_type", b) for b in basis]
            return c.iff(result, c.not_(c.and_(*[c.or_(*[c.in_set(t, f) for f in found]) for t in range(10)])))

        set_universe = (0, 10)  # (used when the callee is inlined by the concrete differential check)
        modifies = ()

    return _K


for _k in (0, 1, 2, 3):
    _is_polynomial(_k)
    _is_non_polynomial(_k)
