"""C01: the occurrence listing itself (Perm.occurrences_in), proved for all lengths.

The search is a recursive nested generator `occurrences(i, k)` that extends a partial occurrence
kept in the closure list `occurrence_indices`; it is verified against an INNER CONTRACT (partial
correctness; the recursion is not shown to terminate):

    the rows it yields are, in strictly increasing lexicographic order, exactly the integer tuples t
    that extend the current prefix occurrence_indices[0:k], have t[k] >= i, and satisfy for every
    position j >= k the code's own admissibility test

        Valid(t, j):  0 <= t[j] <= N-n+j,  t[j-1] < t[j],
                      lower(t, j) <= patt[t[j]] <= upper(t, j)          (bounds from the left floor /
                                                                          left ceiling table)

The top-level postcondition is the PROPERTY STATEMENT: the listing is, in strictly increasing
lexicographic order, exactly the strictly increasing index tuples whose entries are
order-isomorphic to the pattern (each once).  The bridge  (forall j. Valid(t, j))  <=>  Occ(t)
is proved by induction lemmas over the contracts (no bound on lengths):

    incr   t adjacent-increasing            =>  t[b] - t[a] >= b - a
    sound  Valid everywhere                 =>  order-isomorphic          (induction on positions)
    gaps   order-isomorphic                 =>  phi(w) - phi(u) >= w - u  (phi = value map, induction)
    compl  order-isomorphic occurrence      =>  Valid everywhere

The left floor / left ceiling table (Perm.left_floor_and_ceiling, a deque rotation algorithm) and the
memoised per-pattern table built from it (Perm._pattern_details) are verified in
contracts/floor_ceiling.py and below; nothing on the path of this property is assumed.
"""
from pyvc.dsl import contract, lemma

P = ("C01",)
BIG = 10 ** 9


def _at(c, seq, i):
    """seq[i]; at run time an out-of-range read yields a sentinel (symbolically the value is
    unconstrained) - every use is guarded by range conditions elsewhere in the same formula."""
    if c.mode == "run":
        return seq[i] if 0 <= i < len(seq) else -BIG
    return seq[i]


def _inv(c, p, v):
    """position of value v in the permutation p (ghost inverse symbolically)"""
    if c.mode == "run":
        return tuple(p).index(v) if v in tuple(p) else -BIG  # (`in` on a Perm is pattern containment)
    return p.meta["ginv"](v)


def _details_ok(c, p, det):
    n = c.len(p)

    pa = (lambda a: p[a]) if c.mode == "sym" else None  # trigger: the entry p[a]

    def per(k):
        d = det[k]
        lfi, lci, lbp, ubp = d[0], d[1], d[2], d[3]
        return c.and_(
            lfi >= -1, lfi < k, lci >= -1, lci < k,
            c.implies(lfi == -1, lambda: c.and_(lbp == p[k], c.forall(0, k, lambda a: p[a] > p[k], pattern=pa))),
            c.implies(lfi != -1, lambda: c.and_(p[lfi] < p[k], lbp == p[k] - p[lfi],
                                                c.forall(0, k, lambda a: c.implies(p[a] < p[k], lambda: p[a] <= p[lfi]), pattern=pa))),
            c.implies(lci == -1, lambda: c.and_(ubp == n - p[k], c.forall(0, k, lambda a: p[a] < p[k], pattern=pa))),
            c.implies(lci != -1, lambda: c.and_(p[lci] > p[k], ubp == p[lci] - p[k],
                                                c.forall(0, k, lambda a: c.implies(p[a] > p[k], lambda: p[a] >= p[lci]), pattern=pa))),
        )

    return c.and_(c.len(det) == n, c.forall(0, n, per, pattern=(lambda k: det[k][0]) if c.mode == "sym" else None))


@contract("Perm._pattern_details", params={"self": "Perm"}, returns="Seq[int*4]", props=P)
class PatternDetails:
    # for every position k the index of the largest smaller / smallest larger entry to the left (-1 if
    # none) and the two pre-computed offsets used by the search; built from left_floor_and_ceiling
    # (contracts/floor_ceiling.py) and memoised on the pattern object
    def requires(c, self):
        return c.is_perm(self)

    def ensures(c, self, result):
        return _details_ok(c, self, result)

    memo_attrs = ("_cached_pattern_details",)
    modifies = ("self._cached_pattern_details",)


@contract("Perm.get_perm", params={"self": "Perm"}, returns="Perm", props=P)
class GetPerm:
    def requires(c, self):
        return c.is_perm(self)

    def ensures(c, self, result):
        return c.eq(result, self)

    def value(c, self):
        return self

    def ghost_inverse(c, self, result):
        return self.meta["ginv"]


# --------------------------------------------------------------------------- predicates on tuples
def _shape_at(c, p, patt, t, j, cols=None):
    """position j of t is a legal index, above everything to its left (and carries the right colour)"""
    N, n = c.len(patt), c.len(p)
    parts = [t[j] >= 0, t[j] <= N - n + j, c.forall(0, j, lambda a: t[a] < t[j], pattern=_pj(c, t))]
    if cols is not None:
        parts.append(_at(c, cols[1], t[j]) == cols[0][j])
    return c.and_(*parts)


def _bounds_at(c, p, patt, det, t, j):
    """the code's admissibility test at position j: value bounds from the left floor / left ceiling"""
    N = c.len(patt)
    d = det[j]
    lfi, lci, lbp, ubp = d[0], d[1], d[2], d[3]
    e = _at(c, patt, t[j])
    lower = c.ite(lfi == -1, lbp, _at(c, patt, _at(c, t, lfi)) + lbp)
    upper = c.ite(lci == -1, N - ubp, _at(c, patt, _at(c, t, lci)) - ubp)
    return c.and_(lower <= e, e <= upper)


def _pj(c, t):
    """trigger of a quantifier over the positions j of a tuple: the entry t[j]"""
    return (lambda j: t[j]) if c.mode == "sym" else None


def _valid_from(c, p, patt, det, t, k, cols=None):
    # two quantified facts with different triggers: the bounds mention t[lfi(j)], so triggering them
    # on t[j] alone would re-trigger them at lfi(j), lfi(lfi(j)), ... (a matching loop)
    both = (lambda j: (t[j], det[j][0])) if c.mode == "sym" else None
    return c.and_(
        c.forall(k, c.len(p), lambda j: _shape_at(c, p, patt, t, j, cols), pattern=_pj(c, t)),
        c.forall(k, c.len(p), lambda j: _bounds_at(c, p, patt, det, t, j), pattern=both),
    )


def _incr(c, t, n):
    """strictly increasing: a < b  =>  t[a] < t[b]"""
    return c.forall(0, n, lambda b: c.forall(0, b, lambda a: t[a] < t[b], pattern=_pj(c, t)), pattern=_pj(c, t))


def _occ(c, p, patt, t, cols=None):
    """t is an occurrence of p in patt: strictly increasing indices whose entries are order-isomorphic"""
    N, n = c.len(patt), c.len(p)
    parts = [
        c.len(t) == n,
        c.forall(0, n, lambda j: c.and_(t[j] >= 0, t[j] < N), pattern=_pj(c, t)),
        _incr(c, t, n),
        # order-isomorphic: every pair a < b (for distinct entries the symmetric statement is the same fact)
        c.forall(0, n, lambda b: c.forall(0, b, lambda a: c.iff(p[a] < p[b], _at(c, patt, t[a]) < _at(c, patt, t[b])), pattern=_pj(c, t)), pattern=_pj(c, t)),
    ]
    if cols is not None:
        parts.append(c.forall(0, n, lambda j: _at(c, cols[1], t[j]) == cols[0][j], pattern=_pj(c, t)))
    return c.and_(*parts)


def _lexlt(c, a, b, n):
    """a <lex b for tuples of length n: they agree before some position d and a[d] < b[d]"""
    return c.exists(0, n, lambda d: c.and_(c.forall(0, d, lambda j: a[j] == b[j], pattern=_pj(c, a)), a[d] < b[d]))


def _roweq(c, r, t, n):
    both = (lambda j: [r[j], t[j]]) if c.mode == "sym" else None  # either side's entry triggers the equation
    return c.and_(c.len(r) == n, c.forall(0, n, lambda j: r[j] == t[j], pattern=both))


def _rowfun(rows):
    rf = getattr(rows, "row", None)
    return rf if rf is not None else rows.meta.get("rowfun")


def _sorted_rows(c, rows, n):
    """strictly increasing in lexicographic order (pairwise form: m1 < m2 => rows[m1] <lex rows[m2];
    in particular no row is listed twice)"""
    pat = None
    if c.mode == "sym":
        rf = _rowfun(rows)
        pat = (lambda m1, m2: (rf(m1.t), rf(m2.t))) if rf is not None else None
    return c.forall2(0, c.len(rows), lambda m1, m2: c.implies(m1 < m2, lambda: _lexlt(c, rows[m1], rows[m2], n)), pattern=pat)


def _listed(c, rows, t, n):
    return c.exists(0, c.len(rows), lambda m: _roweq(c, rows[m], t, n))


def _listed_same(c, rows, t):
    """t is one of the rows (as a tuple)"""
    return c.exists(0, c.len(rows), lambda m: c.same_tuple(rows[m], t))


# --------------------------------------------------------------------------- inner contract
def _cols(env):
    sc = env.self_colours
    return None if sc is None or type(sc).__name__ == "NoneV" else (sc, env.patt_colours)


class _Occurrences:
    """inner contract of the nested generator  occurrences(i, k)"""

    mutates = ("occurrence_indices",)

    def requires(c, env, i, k):
        p, patt, occ = env.self, env.pattern, env.occurrence_indices
        N, n = c.len(patt), c.len(p)
        return c.and_(
            k >= 0, k < n, n <= N, i >= 0, i <= N, c.len(occ) == n,
            c.forall(0, k, lambda j: c.and_(occ[j] >= 0, occ[j] < i), pattern=(lambda j: occ[j]) if c.mode == "sym" else None),
        )

    def ensures(c, old, i, k, result, new):
        p, patt, det, occ0 = old.self, old.pattern, old.pattern_details, old.occurrence_indices
        n = c.len(p)
        cols = _cols(old)

        def member(t):
            return c.and_(c.forall(0, k, lambda j: t[j] == occ0[j], pattern=_pj(c, t)), t[k] >= i, _valid_from(c, p, patt, det, t, k, cols))

        return c.and_(
            c.forall(0, c.len(result), lambda m: c.and_(c.len(result[m]) == n, member(result[m]))),
            _sorted_rows(c, result, n),
            c.forall_tuple(n, lambda t: c.implies(member(t), lambda: _listed(c, result, t, n))),
            c.len(new.occurrence_indices) == n,
            c.forall(0, k, lambda j: new.occurrence_indices[j] == occ0[j]),
        )


def _loop_invariant(c, st, _k):
    e = st.__entry__
    p, patt, det, occ0, i0 = st.self, st.pattern, st.pattern_details, e.occurrence_indices, e.i
    k, i, occ, out = st.k, st.i, st.occurrence_indices, st.__out__
    N, n = c.len(patt), c.len(p)
    cols = _cols(st)

    def member(t):
        return c.and_(c.forall(0, k, lambda j: t[j] == occ0[j], pattern=_pj(c, t)), t[k] >= i0, t[k] < i, _valid_from(c, p, patt, det, t, k, cols))

    return c.and_(
        i0 <= i, i <= N, st.elements_remaining == N - i, c.len(occ) == n,
        c.forall(0, k, lambda j: occ[j] == occ0[j]),
        c.forall(0, c.len(out), lambda m: c.and_(c.len(out[m]) == n, member(out[m]))),
        _sorted_rows(c, out, n),
        c.forall_tuple(n, lambda t: c.implies(member(t), lambda: _listed(c, out, t, n))),
    )


# --------------------------------------------------------------------------- top level
def _bridge_lemmas(c, p, patt, cols):
    """chain of (induction) lemmas connecting the code's admissibility test with order-isomorphism;
    every item is small enough to be found by trigger-based instantiation"""
    N, n = c.len(patt), c.len(p)
    det = c.call("Perm._pattern_details", p)
    sym = c.mode == "sym"

    def val(t, x):
        return _at(c, patt, t[x])

    def phi(t, w):
        return _at(c, patt, _at(c, t, _inv(c, p, w)))

    def pair(t):
        return (lambda a, b: (t[a], t[b])) if sym else None

    def every(body):
        return c.forall_tuple(n, body, universe=(-1, N + 1) if not sym else None)

    def valid(t):
        return _valid_from(c, p, patt, det, t, 0, cols)

    def occ(t):
        return _occ(c, p, patt, t, cols)

    # --- strictly increasing index tuples
    def incr(b):  # entries grow by at least one per step
        return every(lambda t: c.implies(c.and_(_incr(c, t, n), b < n), lambda: c.forall(
            0, b + 1, lambda a: t[b] - t[a] >= b - a, pattern=_pj(c, t))))

    def tail(_z):  # ... in particular up to the last entry
        return every(lambda t: c.implies(c.and_(_incr(c, t, n), n >= 1), lambda: c.forall(
            0, n, lambda a: t[n - 1] - t[a] >= n - 1 - a, pattern=_pj(c, t))))

    def fits(_z):  # an occurrence needs room: first and last entry are n-1 apart inside range(N)
        return every(lambda t: c.implies(c.and_(occ(t), n >= 1), lambda: c.and_(t[n - 1] - t[0] >= n - 1, t[0] >= 0, t[n - 1] < N)))

    # --- admissible everywhere => order-isomorphic
    def sound(b):  # on positions < b
        return every(lambda t: c.implies(valid(t), lambda: c.forall2(
            0, n, lambda a, b2: c.implies(c.and_(a < b2, b2 < b), lambda: c.iff(p[a] < p[b2], val(t, a) < val(t, b2))), pattern=pair(t))))

    def sound_occ(_z):
        return every(lambda t: c.implies(c.and_(c.len(t) == n, valid(t)), lambda: occ(t)))

    # --- order-isomorphic => the value map phi (value w of the pattern -> value in patt) has unit gaps
    def gaps(w):
        return every(lambda t: c.implies(c.and_(occ(t), w < n), lambda: c.forall(
            0, w + 1, lambda u: phi(t, w) - phi(t, u) >= w - u, pattern=(lambda u: _inv(c, p, u)) if sym else None)))

    def gaps_pos(_z):  # the same, by positions
        return every(lambda t: c.implies(occ(t), lambda: c.forall2(
            0, n, lambda x, y: c.implies(p[x] <= p[y], lambda: val(t, y) - val(t, x) >= p[y] - p[x]), pattern=pair(t))))

    def low(_z):  # at least p[x] values of patt lie below the image of position x
        return every(lambda t: c.implies(c.and_(occ(t), n >= 1), lambda: c.and_(
            phi(t, 0) >= 0, c.forall(0, n, lambda x: val(t, x) - phi(t, 0) >= p[x], pattern=_pj(c, t)))))

    def high(_z):  # and at least n-1-p[x] above
        return every(lambda t: c.implies(c.and_(occ(t), n >= 1), lambda: c.and_(
            phi(t, n - 1) <= N - 1, c.forall(0, n, lambda x: phi(t, n - 1) - val(t, x) >= n - 1 - p[x], pattern=_pj(c, t)))))

    def rigid(_z):  # an occurrence of a pattern in a permutation of the SAME length is the identity map, and the two are equal
        return every(lambda t: c.implies(c.and_(occ(t), n == N), lambda: c.forall(0, n, lambda x: c.and_(t[x] == x, val(t, x) == p[x]), pattern=(lambda x: [t[x], p[x]]) if sym else None)))

    def complete(_z):  # an occurrence passes the code's admissibility test at every position
        return every(lambda t: c.implies(occ(t), lambda: valid(t)))

    # (name, lo, hi, P, earlier items used in its proof)
    return [("incr", 0, n - 1, incr, ()), ("tail", 0, 0, tail, ("incr",)), ("fits", 0, 0, fits, ("tail",)),
            ("sound", 0, n, sound, ()), ("sound_occ", 0, 0, sound_occ, ("sound",)),
            ("gaps", 0, n - 1, gaps, ()), ("gaps_pos", 0, 0, gaps_pos, ("gaps",)), ("low", 0, 0, low, ("gaps",)), ("high", 0, 0, high, ("gaps",)),
            ("rigid", 0, 0, rigid, ("incr", "tail", "low", "high")),
            ("complete", 0, 0, complete, ("tail", "gaps_pos", "low", "high"))]


@lemma("occurrence_bridge", {"p": "Perm", "patt": "Perm"}, props=P)
def occurrence_bridge(c, p, patt):
    return _bridge_lemmas(c, p, patt, None)


occurrence_bridge.runtime_cap = 80  # every item quantifies over all index tuples: expensive at run time


@lemma("containment_respects_sort_order", {"p": "Perm", "q": "Perm"}, props=("C01", "C05"))
def containment_respects_sort_order(c, p, q):
    """p occurs in q  =>  p is not longer than q, and if they have the same length they are EQUAL:
    the order (length, then lexicographic) used to sort a basis is a linear extension of containment"""
    n, N = c.len(p), c.len(q)
    return c.forall_tuple(n, lambda t: c.implies(_occ(c, p, q, t), lambda: c.and_(n <= N, c.implies(n == N, lambda: c.forall(0, n, lambda i: p[i] == q[i])))),
                          universe=(-1, N + 1) if c.mode == "run" else None)


containment_respects_sort_order.uses_lemmas = [("occurrence_bridge", lambda p, q: (p, q), ("fits", "rigid"))]


def _post(c, p, patt, result, cols):
    n = c.len(p)
    return c.and_(
        c.forall(0, c.len(result), lambda m: _occ(c, p, patt, result[m], cols)),
        _sorted_rows(c, result, n),
        c.forall_tuple(n, lambda t: c.implies(_occ(c, p, patt, t, cols), lambda: _listed(c, result, t, n)), universe=(-1, c.len(patt) + 1) if c.mode == "run" else None),
        # the same completeness statement with equality of tuples (by extensionality)
        c.forall_tuple(n, lambda t: c.implies(_occ(c, p, patt, t, cols), lambda: _listed_same(c, result, t)), universe=(-1, c.len(patt) + 1) if c.mode == "run" else None),
    )


def _rows_shape(c, self, patt, result):
    """a VIEW of the postcondition for callers that only walk over the rows: every row has the length of
    the pattern, its entries are positions of patt, strictly increasing"""
    n, N = c.len(self), c.len(patt)
    return c.forall(0, c.len(result), lambda m: c.and_(
        c.len(result[m]) == n,
        c.forall(0, n, lambda j: c.and_(result[m][j] >= 0, result[m][j] < N), pattern=_pj(c, result[m])),
        _incr(c, result[m], n)))


@contract("Perm.occurrences_in", params={"self": "Perm", "patt": "Perm"}, returns="TupleList", props=P)
class OccurrencesIn:
    def requires(c, self, patt):
        return c.and_(c.is_perm(self), c.is_perm(patt))

    views = {"rows_shape": _rows_shape}

    def ensures(c, self, patt, result):
        return _post(c, self, patt, result, None)

    uses_lemmas = [("occurrence_bridge", lambda self, patt: (self, patt), ("fits", "sound_occ", "complete"))]

    # LISTING-CARDINALITY: OCCN(self, patt) is by definition the number of occurrences, i.e. the
    # length of the (unique) strictly increasing listing of the occurrence set characterised above
    def derived(c, self, patt, result):
        return c.len(result) == c.ghost("OCCN", self, patt)

    derived_rule = "LISTING-CARDINALITY"
    inner = {"occurrences": _Occurrences}
    invariants = {0: _loop_invariant}
    modifies = ()


# --------------------------------------------------------------------------- with colourings
@lemma("occurrence_bridge_coloured", {"p": "Perm", "patt": "Perm", "sc": "Seq", "pc": "Seq"}, props=P)
def occurrence_bridge_coloured(c, p, patt, sc, pc):
    if c.mode == "run" and (len(sc) != len(p) or len(pc) != len(patt)):
        return []  # not colourings of the two permutations (symbolically, sequences are total: no guard needed)
    return _bridge_lemmas(c, p, patt, (sc, pc))


def _coloured_domain(quick):
    """(pattern, permutation, colouring of the pattern, colouring of the permutation): all 2-colourings"""
    import itertools

    from vlib import domains as D

    perms = D.perms_upto(3 if quick else 4)
    targets = D.perms_upto(4)
    for p in perms:
        for q in targets:
            if len(p) > len(q):
                continue
            for sc in itertools.product((0, 1), repeat=len(p)):
                for pc in itertools.product((0, 1), repeat=len(q)):
                    yield (p, q, sc, pc)


occurrence_bridge_coloured.runtime_domain = _coloured_domain
occurrence_bridge_coloured.runtime_cap = 60


@contract("Perm.occurrences_in@4", params={"self": "Perm", "patt": "Perm", "args#0": "Seq", "args#1": "Seq"}, returns="TupleList", props=P)
class OccurrencesInColoured:
    # occurrences_in(patt, self_colours, patt_colours): exactly the occurrences whose colours match
    def requires(c, self, patt, sc, pc):
        return c.and_(c.is_perm(self), c.is_perm(patt), c.len(sc) == c.len(self), c.len(pc) == c.len(patt))

    def ensures(c, self, patt, sc, pc, result):
        return _post(c, self, patt, result, (sc, pc))

    runtime_domain = staticmethod(_coloured_domain)
    runtime_cap = 1500
    uses_lemmas = [("occurrence_bridge_coloured", lambda self, patt, sc, pc: (self, patt, sc, pc), ("fits", "sound_occ", "complete"))]
    inner = {"occurrences": _Occurrences}
    invariants = {0: _loop_invariant}
    modifies = ()
