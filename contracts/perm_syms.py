"""Contracts of the permutation symmetries (C04, used by C10/C18 as callee contracts).

Geometric reading: a permutation is the point set {(i, p[i])}; each method returns the
permutation whose point set is the image under the stated symmetry of the square.
Every result is a bijection: the contract supplies the ghost inverse witness.
"""
from pyvc.dsl import contract

P = ("C04",)


@contract("Perm.inverse", params={"self": "Perm"}, returns="Perm", props=("C04", "C10"))
class Inverse:
    # image of (i, v) is (v, i)
    def requires(c, self):
        return c.is_perm(self)

    def ensures(c, self, result):
        n = c.len(self)
        return c.and_(c.len(result) == n, c.forall(0, n, lambda i: result[self[i]] == i), c.is_perm(result))

    def ghost_inverse(c, self, result):
        return self

    invariants = {
        0: lambda c, st, k: c.and_(
            c.len(st.result) == c.len(st.self),
            c.forall(0, k, lambda j: st.result[st.self[j]] == j),
        )
    }
    modifies = ()


@contract("Perm.reverse", params={"self": "Perm"}, returns="Perm", props=P)
class Reverse:
    # image of (i, v) is (n-1-i, v)
    def requires(c, self):
        return c.is_perm(self)

    def ensures(c, self, result):
        n = c.len(self)
        return c.and_(c.len(result) == n, c.forall(0, n, lambda i: result[n - 1 - i] == self[i]), c.is_perm(result))

    def ghost_inverse(c, self, result):
        n = c.len(self)
        g = self.meta["ginv"] if hasattr(self, "meta") else None
        return lambda v: n - 1 - g(v)

    modifies = ()


@contract("Perm.complement", params={"self": "Perm"}, returns="Perm", props=P)
class Complement:
    # image of (i, v) is (i, n-1-v)
    def requires(c, self):
        return c.is_perm(self)

    def ensures(c, self, result):
        n = c.len(self)
        return c.and_(c.len(result) == n, c.forall(0, n, lambda i: result[i] == n - 1 - self[i]), c.is_perm(result))

    def ghost_inverse(c, self, result):
        n = c.len(self)
        g = self.meta["ginv"]
        return lambda v: g(n - 1 - v)

    modifies = ()


@contract("Perm.reverse_complement", params={"self": "Perm"}, returns="Perm", props=P)
class ReverseComplement:
    # image of (i, v) is (n-1-i, n-1-v)  (rotation by 180 degrees)
    def requires(c, self):
        return c.is_perm(self)

    def ensures(c, self, result):
        n = c.len(self)
        return c.and_(c.len(result) == n, c.forall(0, n, lambda i: result[n - 1 - i] == n - 1 - self[i]), c.is_perm(result))

    def ghost_inverse(c, self, result):
        n = c.len(self)
        g = self.meta["ginv"]
        return lambda v: n - 1 - g(n - 1 - v)

    modifies = ()


@contract("Perm.flip_antidiagonal", params={"self": "Perm"}, returns="Perm", props=P)
class FlipAntidiagonal:
    # image of (i, v) is (n-1-v, n-1-i)
    def requires(c, self):
        return c.is_perm(self)

    def ensures(c, self, result):
        n = c.len(self)
        return c.and_(c.len(result) == n, c.forall(0, n, lambda i: result[n - 1 - self[i]] == n - 1 - i), c.is_perm(result))

    def ghost_inverse(c, self, result):
        n = c.len(self)
        return lambda v: n - 1 - self[n - 1 - v]

    invariants = {
        0: lambda c, st, k: c.and_(
            c.len(st.result) == c.len(st.self),
            st.n == c.len(st.self),
            c.forall(0, k, lambda j: st.result[st.n - 1 - st.self[j]] == st.n - 1 - j),
        )
    }
    modifies = ()


@contract("Perm.rotate", params={"self": "Perm", "times": "int"}, returns="Perm", props=P)
class Rotate:
    # rotation by 90 degrees clockwise, `times` times (any integer): image of (i, v) under one
    # step is (v, n-1-i)
    defaults = {"times": 1}

    def requires(c, self, times):
        return c.is_perm(self)

    def ensures(c, self, times, result):
        n = c.len(self)
        t = c.mod(times, 4)
        return c.and_(
            c.len(result) == n,
            c.implies(t == 0, c.forall(0, n, lambda i: result[i] == self[i])),
            c.implies(t == 1, c.forall(0, n, lambda i: result[self[i]] == n - 1 - i)),
            c.implies(t == 2, c.forall(0, n, lambda i: result[n - 1 - i] == n - 1 - self[i])),
            c.implies(t == 3, c.forall(0, n, lambda i: result[n - 1 - self[i]] == i)),
            c.is_perm(result),
        )

    def ghost_inverse(c, self, times, result):
        n = c.len(self)
        t = c.mod(times, 4)
        g = self.meta["ginv"]
        return lambda v: c.ite(t == 0, g(v), c.ite(t == 1, self[n - 1 - v], c.ite(t == 2, n - 1 - g(n - 1 - v), n - 1 - self[v])))

    invariants = {
        0: lambda c, st, k: c.and_(
            c.len(st.result) == c.len(st.self), st.n == c.len(st.self),
            c.forall(0, k, lambda j: st.result[st.self[j]] == st.n - 1 - j),
        ),
        1: lambda c, st, k: c.and_(
            c.len(st.result) == c.len(st.self), st.n == c.len(st.self),
            c.forall(0, k, lambda j: st.result[st.n - 1 - st.self[j]] == j),
        ),
    }
    modifies = ()
