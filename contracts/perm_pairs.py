"""C11: listings of index PAIRS (inversions / non-inversions) - nested loops that yield tuples.

Postcondition = the definition: the listing is, in strictly increasing lexicographic order (so each
pair once), exactly the pairs (i, j) with 0 <= i < j < n and self[i] > self[j]  (resp. <).
"""
from pyvc.dsl import contract

P = ("C11",)


def _pj(c, t):
    return (lambda j: t[j]) if c.mode == "sym" else None


def _lexlt2(c, a, b):
    return c.or_(a[0] < b[0], c.and_(a[0] == b[0], a[1] < b[1]))


def _rowfun(rows):
    rf = getattr(rows, "row", None)
    return rf if rf is not None else rows.meta.get("rowfun")


def _sorted2(c, rows):
    pat = None
    if c.mode == "sym":
        rf = _rowfun(rows)
        pat = (lambda m1, m2: (rf(m1.t), rf(m2.t))) if rf is not None else None
    return c.forall2(0, c.len(rows), lambda m1, m2: c.implies(m1 < m2, lambda: _lexlt2(c, rows[m1], rows[m2])), pattern=pat)


def _listed2(c, rows, t):
    return c.exists(0, c.len(rows), lambda m: c.and_(c.len(rows[m]) == 2, rows[m][0] == t[0], rows[m][1] == t[1]))


def _make(qual, inverted):
    def pair_ok(c, p, t):
        n = c.len(p)
        rel = (lambda a, b: a > b) if inverted else (lambda a, b: a < b)
        return c.and_(t[0] >= 0, t[0] < t[1], t[1] < n, lambda: rel(p[t[0]], p[t[1]]))

    def outer_inv(c, st, k):
        p, out = st.self, st.__out__

        def member(t):
            return c.and_(pair_ok(c, p, t), lambda: t[0] < k)

        return c.and_(
            c.forall(0, c.len(out), lambda m: c.and_(c.len(out[m]) == 2, member(out[m]))),
            _sorted2(c, out),
            c.forall_tuple(2, lambda t: c.implies(member(t), lambda: _listed2(c, out, t)), universe=(-1, c.len(p) + 1) if c.mode == "run" else None),
        )

    def inner_inv(c, st, k):
        p, out, i = st.self, st.__out__, st.i

        def member(t):
            return c.and_(pair_ok(c, p, t), lambda: c.or_(t[0] < i, c.and_(t[0] == i, t[1] < i + 1 + k)))

        return c.and_(
            st.prev == p[i], i >= 0, i < c.len(p),
            c.forall(0, c.len(out), lambda m: c.and_(c.len(out[m]) == 2, member(out[m]))),
            _sorted2(c, out),
            c.forall_tuple(2, lambda t: c.implies(member(t), lambda: _listed2(c, out, t)), universe=(-1, c.len(p) + 1) if c.mode == "run" else None),
        )

    @contract(qual, params={"self": "Perm"}, returns="TupleList", props=P)
    class _K:
        def requires(c, self):
            return c.is_perm(self)

        def ensures(c, self, result):
            return c.and_(
                c.forall(0, c.len(result), lambda m: c.and_(c.len(result[m]) == 2, pair_ok(c, self, result[m]))),
                _sorted2(c, result),
                c.forall_tuple(2, lambda t: c.implies(pair_ok(c, self, t), lambda: _listed2(c, result, t)),
                               universe=(-1, c.len(self) + 1) if c.mode == "run" else None),
            )

        invariants = {0: outer_inv, 1: inner_inv}
        modifies = ()

    return _K


_make("Perm.inversions", True)
_make("Perm.non_inversions", False)
