"""Contracts of the pointwise algebraic operations on permutations (C10).

Every result is stated pointwise against its definition AND as a bijection (ghost
inverse witness).  Variadic functions are verified for fixed arities (@k suffix =
number of positional arguments including self); lengths are unbounded.
"""
from pyvc.dsl import contract

P = ("C10",)


# ------------------------------------------------------------------ direct sum
@contract("Perm.direct_sum@2", params={"self": "Perm", "others#0": "Perm"}, returns="Perm", props=P)
class DirectSum2:
    # points of self, then the points of other shifted up and right by len(self)
    def requires(c, self, q):
        return c.and_(c.is_perm(self), c.is_perm(q))

    def ensures(c, self, q, result):
        n, m = c.len(self), c.len(q)
        return c.and_(
            c.len(result) == n + m,
            c.forall(0, n, lambda i: result[i] == self[i]),
            c.forall(0, m, lambda i: result[n + i] == q[i] + n),
            c.is_perm(result),
        )

    def ghost_inverse(c, self, q, result):
        n = c.len(self)
        gs, gq = self.meta["ginv"], q.meta["ginv"]
        return lambda v: c.ite(c.int(v) < n, gs(v), n + gq(c.int(v) - n))

    modifies = ()


@contract("Perm.direct_sum@3", params={"self": "Perm", "others#0": "Perm", "others#1": "Perm"}, returns="Perm", props=P)
class DirectSum3:
    def requires(c, self, q, r):
        return c.and_(c.is_perm(self), c.is_perm(q), c.is_perm(r))

    def ensures(c, self, q, r, result):
        n, m, k = c.len(self), c.len(q), c.len(r)
        return c.and_(
            c.len(result) == n + m + k,
            c.forall(0, n, lambda i: result[i] == self[i]),
            c.forall(0, m, lambda i: result[n + i] == q[i] + n),
            c.forall(0, k, lambda i: result[n + m + i] == r[i] + n + m),
            c.is_perm(result),
        )

    def ghost_inverse(c, self, q, r, result):
        n, m = c.len(self), c.len(q)
        gs, gq, gr = self.meta["ginv"], q.meta["ginv"], r.meta["ginv"]
        return lambda v: c.ite(c.int(v) < n, gs(v), c.ite(c.int(v) < n + m, n + gq(c.int(v) - n), n + m + gr(c.int(v) - n - m)))

    modifies = ()


@contract("Perm.direct_sum@1", params={"self": "Perm"}, returns="Perm", props=P)
class DirectSum1:
    def requires(c, self):
        return c.is_perm(self)

    def ensures(c, self, result):
        return c.and_(c.seq_eq(result, self), c.is_perm(result))

    def ghost_inverse(c, self, result):
        return self.meta["ginv"]

    modifies = ()


# -------------------------------------------------------------------- skew sum
@contract("Perm.skew_sum@2", params={"self": "Perm", "others#0": "Perm"}, returns="Perm", props=P)
class SkewSum2:
    # points of self shifted up by len(other), then the points of other shifted right
    def requires(c, self, q):
        return c.and_(c.is_perm(self), c.is_perm(q))

    def ensures(c, self, q, result):
        n, m = c.len(self), c.len(q)
        return c.and_(
            c.len(result) == n + m,
            c.forall(0, n, lambda i: result[i] == self[i] + m),
            c.forall(0, m, lambda i: result[n + i] == q[i]),
            c.is_perm(result),
        )

    def ghost_inverse(c, self, q, result):
        n, m = c.len(self), c.len(q)
        gs, gq = self.meta["ginv"], q.meta["ginv"]
        return lambda v: c.ite(c.int(v) < m, n + gq(v), gs(c.int(v) - m))

    modifies = ()


@contract("Perm.skew_sum@3", params={"self": "Perm", "others#0": "Perm", "others#1": "Perm"}, returns="Perm", props=P)
class SkewSum3:
    def requires(c, self, q, r):
        return c.and_(c.is_perm(self), c.is_perm(q), c.is_perm(r))

    def ensures(c, self, q, r, result):
        n, m, k = c.len(self), c.len(q), c.len(r)
        return c.and_(
            c.len(result) == n + m + k,
            c.forall(0, n, lambda i: result[i] == self[i] + m + k),
            c.forall(0, m, lambda i: result[n + i] == q[i] + k),
            c.forall(0, k, lambda i: result[n + m + i] == r[i]),
            c.is_perm(result),
        )

    def ghost_inverse(c, self, q, r, result):
        n, m, k = c.len(self), c.len(q), c.len(r)
        gs, gq, gr = self.meta["ginv"], q.meta["ginv"], r.meta["ginv"]
        return lambda v: c.ite(c.int(v) < k, n + m + gr(v), c.ite(c.int(v) < k + m, n + gq(c.int(v) - k), gs(c.int(v) - k - m)))

    modifies = ()


# ------------------------------------------------------------------ composition
@contract("Perm.compose@2", params={"self": "Perm", "others#0": "Perm"}, returns="Perm", props=P)
class Compose2:
    # (self . q)(i) = self[q[i]]; lengths must agree (leading assert)
    inline = ("Perm._composed_value",)

    def requires(c, self, q):
        return c.and_(c.is_perm(self), c.is_perm(q), c.len(q) == c.len(self))

    def ensures(c, self, q, result):
        n = c.len(self)
        return c.and_(c.len(result) == n, c.forall(0, n, lambda i: result[i] == self[q[i]]), c.is_perm(result))

    def ghost_inverse(c, self, q, result):
        gs, gq = self.meta["ginv"], q.meta["ginv"]
        return lambda v: gq(gs(v))

    modifies = ()


@contract("Perm.compose@3", params={"self": "Perm", "others#0": "Perm", "others#1": "Perm"}, returns="Perm", props=P)
class Compose3:
    inline = ("Perm._composed_value",)

    def requires(c, self, q, r):
        return c.and_(c.is_perm(self), c.is_perm(q), c.is_perm(r), c.len(q) == c.len(self), c.len(r) == c.len(self))

    def ensures(c, self, q, r, result):
        n = c.len(self)
        return c.and_(c.len(result) == n, c.forall(0, n, lambda i: result[i] == self[q[r[i]]]), c.is_perm(result))

    def ghost_inverse(c, self, q, r, result):
        gs, gq, gr = self.meta["ginv"], q.meta["ginv"], r.meta["ginv"]
        return lambda v: gr(gq(gs(v)))

    modifies = ()


@contract("Perm.__call__", params={"self": "Perm", "value": "int"}, returns="int", props=P)
class Call:
    def requires(c, self, value):
        return c.and_(c.is_perm(self), 0 <= c.int(value), c.int(value) < c.len(self))

    def ensures(c, self, value, result):
        return result == self[value]

    modifies = ()


# -------------------------------------------------------------------- insertion
@contract("Perm.insert", params={"self": "Perm", "index": "int?", "new_element": "int?"}, returns="Perm", props=P)
class Insert:
    # new point at position min(index, n) (index n+1, the default, means the right end) with value
    # new_element (default n); values >= new_element move up by one
    defaults = {"index": None, "new_element": None}

    @staticmethod
    def _pos(c, self, index):
        n = c.len(self)
        if not c.given(index):
            return n
        return c.ite(c.int(index) > n, n, index)

    @staticmethod
    def _val(c, self, new_element):
        return c.opt(new_element, c.len(self))

    def requires(c, self, index, new_element):
        n = c.len(self)
        conds = [c.is_perm(self)]
        if c.given(index):
            conds += [0 <= c.int(index), c.int(index) <= n + 1]
        if c.given(new_element):
            conds += [0 <= c.int(new_element), c.int(new_element) <= n]
        return c.and_(*conds)

    def ensures(c, self, index, new_element, result):
        n = c.len(self)
        pos, e = Insert._pos(c, self, index), Insert._val(c, self, new_element)
        up = lambda v: c.ite(v < e, v, v + 1)  # noqa: E731
        return c.and_(
            c.len(result) == n + 1,
            result[pos] == e,
            c.forall(0, n, lambda i: result[c.ite(c.int(i) < pos, i, i + 1)] == up(self[i])),
            c.is_perm(result),
        )

    def ghost_inverse(c, self, index, new_element, result):
        pos, e = Insert._pos(c, self, index), Insert._val(c, self, new_element)
        g = self.meta["ginv"]

        def w(v):
            v = c.int(v)
            j = g(c.ite(v < e, v, v - 1))
            return c.ite(v == e, pos, c.ite(j < pos, j, j + 1))

        return w

    modifies = ()


# ---------------------------------------------------------------------- removal
def _remove_post(c, self, s, result):
    """Pointwise meaning of 'delete the point with value s, values above move down'."""
    n = c.len(self)
    k = self.meta["ginv"](s) if hasattr(self, "meta") else list(self).index(s)
    adj = lambda v: c.ite(v < s, v, v - 1)  # noqa: E731
    return c.and_(
        c.len(result) == n - 1,
        c.forall(0, n, lambda i: c.implies(c.int(i) < k, lambda: result[i] == adj(self[i]))),
        c.forall(0, n, lambda i: c.implies(c.int(i) > k, lambda: result[i - 1] == adj(self[i]))),
        c.is_perm(result),
    )


def _remove_lemmas(c, self, s, result):
    flt = result.meta.get("filter")
    if flt is None:
        return []
    cnt = flt["cnt"]
    k = self.meta["ginv"](s)
    from pyvc.values import IntV

    def P(i):
        ci = IntV(cnt(i.t))
        return c.and_(c.implies(i <= k, ci == i), c.implies(i > k, ci == i - 1))

    return [("prefix-count", 0, c.len(self), P)]


def _remove_witness(c, self, s, result):
    flt = result.meta.get("filter")
    g = self.meta["ginv"]
    from pyvc.values import IntV

    if flt is None:
        return lambda v: g(v)
    cnt = flt["cnt"]
    return lambda v: IntV(cnt(g(c.ite(c.int(v) < s, v, c.int(v) + 1)).t))


@contract("Perm.remove_element", params={"self": "Perm", "selected": "int?"}, returns="Perm", props=P)
class RemoveElement:
    defaults = {"selected": None}

    def requires(c, self, selected):
        if c.given(selected):
            return c.and_(c.is_perm(self), 0 <= c.int(selected), c.int(selected) < c.len(self))
        return c.is_perm(self)

    def ensures(c, self, selected, result):
        n = c.len(self)
        if not c.given(selected):
            return c.and_(
                c.implies(n == 0, c.len(result) == 0),
                c.implies(n > 0, lambda: _remove_post(c, self, n - 1, result)),
            )
        return _remove_post(c, self, selected, result)

    def post_lemmas(c, self, selected, result):
        return _remove_lemmas(c, self, c.opt(selected, c.len(self) - 1), result)

    def ghost_inverse(c, self, selected, result):
        return _remove_witness(c, self, c.opt(selected, c.len(self) - 1), result)

    modifies = ()


@contract("Perm.remove", params={"self": "Perm", "index": "int?"}, returns="Perm", props=P)
class Remove:
    defaults = {"index": None}

    def requires(c, self, index):
        if c.given(index):
            return c.and_(c.is_perm(self), 0 <= c.int(index), c.int(index) < c.len(self))
        return c.is_perm(self)

    def ensures(c, self, index, result):
        n = c.len(self)
        if not c.given(index):
            return c.and_(
                c.implies(n == 0, c.len(result) == 0),
                c.implies(n > 0, lambda: _remove_post(c, self, n - 1, result)),
            )
        return _remove_post(c, self, self[index], result)

    def post_lemmas(c, self, index, result):
        if not c.given(index):
            return []
        return _remove_lemmas(c, self, self[index], result)

    def ghost_inverse(c, self, index, result):
        if not c.given(index):
            return result.meta["ginv"]
        return _remove_witness(c, self, self[index], result)

    modifies = ()


# ----------------------------------------------------------------------- shifts
def _wrap(c, x, n):
    """x in [0, 2n) reduced modulo n."""
    return c.ite(x < n, x, x - n)


def _shift_positions(c, self, result, amount):
    """the entry at position i moves to position (i + amount) mod n"""
    n = c.len(self)

    def body():
        t = c.mod(amount, n)
        return c.forall(0, n, lambda i: result[_wrap(c, i + t, n)] == self[i])

    return c.and_(c.len(result) == n, c.implies(n > 0, body), c.is_perm(result))


def _shift_values(c, self, result, amount):
    """value v becomes (v + amount) mod n"""
    n = c.len(self)

    def body():
        t = c.mod(amount, n)
        return c.forall(0, n, lambda i: result[i] == _wrap(c, self[i] + t, n))

    return c.and_(c.len(result) == n, c.implies(n > 0, body), c.is_perm(result))


@contract("Perm.shift_right", params={"self": "Perm", "times": "int"}, returns="Perm", props=P)
class ShiftRight:
    defaults = {"times": 1}

    def requires(c, self, times):
        return c.is_perm(self)

    def ensures(c, self, times, result):
        return _shift_positions(c, self, result, times)

    def ghost_inverse(c, self, times, result):
        n = c.len(self)
        t = c.mod(times, n)
        g = self.meta["ginv"]
        return lambda v: _wrap(c, g(v) + t, n)

    modifies = ()


@contract("Perm.shift_left", params={"self": "Perm", "times": "int"}, returns="Perm", props=P)
class ShiftLeft:
    defaults = {"times": 1}

    def requires(c, self, times):
        return c.is_perm(self)

    def ensures(c, self, times, result):
        return _shift_positions(c, self, result, -c.int(times))

    def ghost_inverse(c, self, times, result):
        return result.meta["ginv"]  # the callee's (shift_right) witness

    modifies = ()


@contract("Perm.shift_up", params={"self": "Perm", "times": "int"}, returns="Perm", props=P)
class ShiftUp:
    defaults = {"times": 1}

    def requires(c, self, times):
        return c.is_perm(self)

    def ensures(c, self, times, result):
        return _shift_values(c, self, result, times)

    def ghost_inverse(c, self, times, result):
        n = c.len(self)
        t = c.mod(times, n)
        g = self.meta["ginv"]
        return lambda v: g(c.ite(c.int(v) - t >= 0, c.int(v) - t, c.int(v) - t + n))

    modifies = ()


@contract("Perm.shift_down", params={"self": "Perm", "times": "int"}, returns="Perm", props=P)
class ShiftDown:
    defaults = {"times": 1}

    def requires(c, self, times):
        return c.is_perm(self)

    def ensures(c, self, times, result):
        return _shift_values(c, self, result, -c.int(times))

    def ghost_inverse(c, self, times, result):
        return result.meta["ginv"]

    modifies = ()
