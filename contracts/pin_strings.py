"""C14: the syntactic test for strict pin words (a numeral followed by direction letters)."""
from pyvc.dsl import contract

P = ("C14",)


def _in(c, ch, letters):
    if c.mode == "run":
        return ch in letters
    return c.or_(*[ch == ord(x) for x in letters])


@contract("PinWords.is_strict_pinword", params={"word": "Str"}, returns="bool", props=P)
class IsStrictPinword:
    def requires(c, word):
        return c.true()

    def ensures(c, word, result):
        n = c.len(word)
        return c.iff(result, c.or_(n == 0, c.and_(n >= 1, lambda: c.and_(_in(c, word[0], "1234"), c.forall(1, n, lambda i: _in(c, word[i], "ULDR"))))))

    modifies = ()


def _is_start(c, word, i):
    """a factor starts at position i: the first position, or a letter that is not a direction letter"""
    return c.or_(i == 0, c.not_(_in(c, word[i], "ULDR")))


def _starts(c, word):
    return c.listing("PinWords.factor_pinword/starts", 0, c.len(word), lambda i: _is_start(c, word, i))


def _rows_ok(c, word, rows, L, last_end):
    """rows[m] is the piece of word from the m-th start to the next start (the last one ends at last_end)"""
    k = c.len(rows)

    def end(m):
        if c.mode == "run":
            return L[m + 1] if m + 1 < k else last_end
        return c.ite(m + 1 < k, L[m + 1], last_end)

    return c.forall(0, k, lambda m: c.and_(
        c.len(rows[m]) == end(m) - L[m],
        c.forall(0, end(m) - L[m], lambda j: rows[m][j] == word[L[m] + j])))


def _outer(c, st, _k):
    word, pos, fl = st.word, st.position, st.factor_list
    n = c.len(word)
    L = _starts(c, word)
    return c.and_(pos >= 0, pos <= n, c.implies(pos < n, lambda: _is_start(c, word, pos)),
                  c.len(fl) == c.count_upto(L, pos), _rows_ok(c, word, fl, L, pos))


def _inner(c, st, _k):
    word, pos, cur = st.word, st.position, st.cur
    n = c.len(word)
    L = _starts(c, word)
    return c.and_(pos < cur, cur <= n, c.count_upto(L, cur) == c.count_upto(L, pos) + 1)


@contract("PinWords.factor_pinword", params={"word": "Str"}, returns="TupleList", props=P)
class FactorPinword:
    # the factors of a pin word: it is cut before every letter that is not a direction letter
    def requires(c, word):
        return c.true()

    def ensures(c, word, result):
        n = c.len(word)
        L = _starts(c, word)
        return c.and_(c.len(result) == c.len(L), _rows_ok(c, word, result, L, n))

    invariants = {0: _outer, 1: _inner}
    list_shapes = {"factor_list": "tuples"}
    modifies = ()
