"""C01: the left floor / left ceiling table (Perm.left_floor_and_ceiling) and the per-pattern search
table built from it (Perm._pattern_details).

left_floor_and_ceiling keeps the elements seen so far in a deque that is, read cyclically, sorted by
value; rotations bring the insertion point to the ends.  Invariant (all rotation-invariant):

    the deque holds k pairs (value, index) of distinct earlier indices with value = self[index];
    smallest / biggest bound every value seen;  every CYCLIC neighbour pair (a, b) is either
    value-adjacent (a < b and no seen value strictly between) or the wrap-around (biggest, smallest).

Postcondition = the definition: the k-th pair is (index of the largest smaller entry to the left of k,
index of the smallest larger entry to the left of k), -1 where there is none.
"""
from pyvc.dsl import contract

P = ("C01",)


def _fc_ok(c, p, k, lfi, lci):
    pa = (lambda a: p[a]) if c.mode == "sym" else None
    return c.and_(
        lfi >= -1, lfi < k, lci >= -1, lci < k,
        c.implies(lfi == -1, lambda: c.forall(0, k, lambda a: p[a] > p[k], pattern=pa)),
        c.implies(lfi != -1, lambda: c.and_(p[lfi] < p[k], c.forall(0, k, lambda a: c.implies(p[a] < p[k], lambda: p[a] <= p[lfi]), pattern=pa))),
        c.implies(lci == -1, lambda: c.forall(0, k, lambda a: p[a] < p[k], pattern=pa)),
        c.implies(lci != -1, lambda: c.and_(p[lci] > p[k], c.forall(0, k, lambda a: c.implies(p[a] > p[k], lambda: p[a] >= p[lci]), pattern=pa))),
    )


def _dq(c, p, deq, k, smallest, biggest):
    """representation invariant of the deque after k elements"""
    pa = (lambda a: p[a]) if c.mode == "sym" else None
    dv = (lambda i: [deq[i][0], deq[i][1]]) if c.mode == "sym" else None

    def pair_ok(a, b):
        return c.or_(c.and_(a < b, c.forall(0, k, lambda j: c.not_(c.and_(a < p[j], p[j] < b)), pattern=pa)),
                     c.and_(a == biggest, b == smallest))

    return c.and_(
        c.len(deq) == k,
        c.forall(0, k, lambda i: c.and_(deq[i][1] >= 0, deq[i][1] < k, lambda: deq[i][0] == p[deq[i][1]]), pattern=dv),
        c.forall2(0, k, lambda i, i2: c.implies(i != i2, lambda: deq[i][1] != deq[i2][1]),
                  pattern=(lambda i, i2: (deq[i][0], deq[i2][0])) if c.mode == "sym" else None),
        c.implies(k >= 1, lambda: c.forall(0, k, lambda j: c.and_(smallest <= p[j], p[j] <= biggest), pattern=pa)),
        # cyclic neighbours: (i, i+1) for i < k-1 and (k-1, 0)
        c.forall2(0, k, lambda i, i2: c.implies(c.or_(i2 == i + 1, c.and_(i == k - 1, i2 == 0)), lambda: pair_ok(deq[i][0], deq[i2][0])),
                  pattern=(lambda i, i2: (deq[i][0], deq[i2][0])) if c.mode == "sym" else None),
    )


def _outer(c, st, k):
    p, out, deq = st.self, st.__out__, st.deq
    return c.and_(
        c.len(out) == k,
        c.forall(0, k, lambda t: _fc_ok(c, p, t, out[t][0], out[t][1]), pattern=(lambda t: [out[t][0], out[t][1]]) if c.mode == "sym" else None),
        _dq(c, p, deq, k, st.smallest, st.biggest),
    )


def _inner(c, st, _k):
    return _dq(c, st.self, st.deq, st.idx, st.smallest, st.biggest)


@contract("Perm.left_floor_and_ceiling", params={"self": "Perm"}, returns="Seq[int*2]", props=P)
class LeftFloorAndCeiling:
    def requires(c, self):
        return c.is_perm(self)

    def ensures(c, self, result):
        n = c.len(self)
        return c.and_(c.len(result) == n, c.forall(0, n, lambda k: _fc_ok(c, self, k, result[k][0], result[k][1]),
                                                   pattern=(lambda k: [result[k][0], result[k][1]]) if c.mode == "sym" else None))

    invariants = {0: _outer, 1: _inner, 2: _inner, 3: _inner}
    modifies = ()
