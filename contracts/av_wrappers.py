"""C02: the query methods of a permutation class are the stated functions of its levels.

The level builder (`_get_level` -> `_ensure_level*`, dictionaries keyed by permutations) is outside
the deductive subset: its contract is ASSUMED (a level is an opaque container whose size is the spec
count AVN(class, n) and whose membership is the spec predicate MEM) and decided by the bounded layer."""
from pyvc.dsl import GHOST_IMPL, contract
from pyvc.values import ObjV

AV = "Obj:Av,basis=Basis"
P = ("C02",)


def _spec_basis(av):
    from specs import core as S

    return tuple(S.to_spec(p) for p in tuple.__iter__(av.basis))


def _avn(av, n):
    from specs import core as S

    return len(S.avoiders_cached(n, _spec_basis(av))) if 0 <= n <= 6 else len(list(av.of_length(n)))


def _mem(av, perm):
    from specs import core as S

    return int(S.avoids_all(tuple(perm), _spec_basis(av)))


GHOST_IMPL["AVN"] = _avn
GHOST_IMPL["MEM"] = _mem


@contract("Av._get_level", params={"self": AV, "level_number": "nat"}, returns="Obj:Level", props=P, assumed=True)
class GetLevel:
    def requires(c, self, level_number):
        return c.true()

    def value(c, self, level_number):
        if c.mode == "run":
            return self._get_level(level_number)
        return ObjV("Level", {"__len__": c.ghost("AVN", self, level_number), "__contains__": (lambda v: c.ghost("MEM", self, v) == 1)})


@contract("Av.count", params={"self": AV, "length": "nat"}, returns="int", props=P)
class Count:
    def requires(c, self, length):
        return c.true()

    def ensures(c, self, length, result):
        return result == c.ghost("AVN", self, length)

    def value(c, self, length):
        return c.ghost("AVN", self, length)

    modifies = ()


@contract("Av.enumeration", params={"self": AV, "length": "nat"}, returns="Seq", props=P)
class Enumeration:
    def requires(c, self, length):
        return c.true()

    def ensures(c, self, length, result):
        return c.and_(c.len(result) == length + 1, c.forall(0, length + 1, lambda i: result[i] == c.ghost("AVN", self, i)))

    modifies = ()


@contract("Av.__contains__", params={"self": AV, "other": "Perm"}, returns="bool", props=P)
class AvContains:
    def requires(c, self, other):
        return c.is_perm(other)

    def ensures(c, self, other, result):
        return c.iff(result, c.ghost("MEM", self, other) == 1)

    modifies = ()
