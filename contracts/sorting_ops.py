"""C12: one pass of the pop-stack device, proved for all lengths.

Perm.pop_stack_sort pushes the entries on a stack while they decrease and empties the whole stack into the
output as soon as a larger entry arrives (and at the end).  What one pass of that device produces is:

    the input cut into its maximal strictly decreasing runs, each run written backwards.

Contract: for every index j, with [lo, hi) the maximal decreasing run of the input that contains j
(`c.desc_run`), result[j] == self[lo + hi - 1 - j]; and the result is a permutation (ghost inverse: the
value at input position p moves to lo(p) + hi(p) - 1 - p).

Loop invariant after k entries, with a = len(result):  the stack holds self[a..k) (newest first), that
stretch is decreasing and starts a run (a == 0 or an ascent at a), every index below a has its whole run
below a and carries its final value.
"""
from pyvc.dsl import contract

P = ("C12",)


def _mirror(c, p, j):
    lo, hi = c.desc_run(p, j)
    return lo + hi - 1 - j


def _inv(c, st, k):
    p, res, stack = st.self, st.result, st.stack
    a = c.len(res)
    pk = (lambda x: p[x]) if c.mode == "sym" else None
    return c.and_(
        a >= 0, a <= k, c.len(stack) == k - a, c.or_(k == 0, a < k),
        c.forall(0, k - a, lambda m: stack[m] == p[k - 1 - m], pattern=(lambda m: stack[m]) if c.mode == "sym" else None),
        c.forall2(a, k, lambda x, y: c.implies(x < y, lambda: p[x] > p[y]), pattern=(lambda x, y: (p[x], p[y])) if c.mode == "sym" else None),
        c.or_(a == 0, lambda: p[a - 1] < p[a]),
        c.forall(0, a, lambda j: c.and_(c.desc_run(p, j)[1] <= a, res[j] == p[_mirror(c, p, j)]),
                 pattern=(lambda j: res[j]) if c.mode == "sym" else None),
    )


@contract("Perm.pop_stack_sort", params={"self": "Perm"}, returns="Perm", props=P)
class PopStackSort:
    def requires(c, self):
        return c.is_perm(self)

    def ensures(c, self, result):
        n = c.len(self)
        return c.and_(
            c.len(result) == n,
            c.forall(0, n, lambda j: result[j] == self[_mirror(c, self, j)], pattern=(lambda j: result[j]) if c.mode == "sym" else None),
            c.is_perm(result),
        )

    def ghost_inverse(c, self, result):
        g = self.meta["ginv"]

        def where(v):
            pos = g(c.int(v))
            return _mirror(c, self, pos)

        return where

    invariants = {0: _inv}
    modifies = ()


# ------------------------------------------------------------------ bubble sort
# One pass of bubble sort (compare neighbours left to right, swap when out of order) carries the largest
# entry seen so far to the right:  out[j] = min(max(s[0..j]), s[j+1])  for j < n-1,  out[n-1] = max(s).
# Perm._bubble_sort is a recursion on the position of the maximum; proved equal to that pointwise description
# for every list of distinct integers (partial correctness: the recursive call is used by its contract).
def _pmax(c, s, j):
    return s[c.prefix_argmax(s, j)]


def _bub(c, s, j):
    m = _pmax(c, s, j)
    return c.ite(m > s[j + 1], s[j + 1], m)


def _distinct(c, s):
    n = c.len(s)
    return c.forall2(0, n, lambda x, y: c.implies(x != y, lambda: s[x] != s[y]), pattern=(lambda x, y: (s[x], s[y])) if c.mode == "sym" else None)


def _bubble_post(c, s, result):
    n = c.len(s)
    return c.and_(
        c.len(result) == n,
        c.implies(n >= 1, lambda: result[n - 1] == _pmax(c, s, n - 1)),
        c.forall(0, n - 1, lambda j: result[j] == _bub(c, s, j), pattern=(lambda j: result[j]) if c.mode == "sym" else None),
    )


@contract("Perm._bubble_sort", params={"perm_slice": "IntList"}, returns="List", props=P)
class BubbleSortInner:
    def requires(c, perm_slice):
        return _distinct(c, perm_slice)

    def ensures(c, perm_slice, result):
        return _bubble_post(c, perm_slice, result)

    modifies = ()


@contract("Perm.bubble_sort", params={"self": "Perm"}, returns="Perm", props=P)
class BubbleSort:
    def requires(c, self):
        return c.is_perm(self)

    def ensures(c, self, result):
        return c.and_(_bubble_post(c, self, result), c.is_perm(result))

    def ghost_inverse(c, self, result):
        g = self.meta["ginv"]

        def where(v):
            # a left-to-right maximum is carried to just before the next larger entry (to the end if there is
            # none); every other entry moves one step to the left
            pos = g(c.int(v))
            return c.ite(c.prefix_argmax(self, pos) == pos, c.next_greater(self, pos) - 1, pos - 1)

        return where

    modifies = ()
