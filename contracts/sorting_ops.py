"""C12: one pass of the pop-stack device, proved for all lengths.

Perm.pop_stack_sort pushes the entries on a stack while they decrease and empties the whole stack into the
output as soon as a larger entry arrives (and at the end).  What one pass of that device produces is:

    the input cut into its maximal strictly decreasing runs, each run written backwards.

Contract: for every index j, with [lo, hi) the maximal decreasing run of the input that contains j
(`c.desc_run`), result[j] == self[lo + hi - 1 - j]; and the result is a permutation (ghost inverse: the
value at input position p moves to lo(p) + hi(p) - 1 - p).

Loop invariant after k entries, with a = len(result):  the stack holds self[a..k) (newest first), that
stretch is decreasing and starts a run (a == 0 or an ascent at a), every index below a has its whole run
below a and carries its final value.
"""
from pyvc.dsl import contract

P = ("C12",)


def _mirror(c, p, j):
    lo, hi = c.desc_run(p, j)
    return lo + hi - 1 - j


def _inv(c, st, k):
    p, res, stack = st.self, st.result, st.stack
    a = c.len(res)
    pk = (lambda x: p[x]) if c.mode == "sym" else None
    return c.and_(
        a >= 0, a <= k, c.len(stack) == k - a, c.or_(k == 0, a < k),
        c.forall(0, k - a, lambda m: stack[m] == p[k - 1 - m], pattern=(lambda m: stack[m]) if c.mode == "sym" else None),
        c.forall2(a, k, lambda x, y: c.implies(x < y, lambda: p[x] > p[y]), pattern=(lambda x, y: (p[x], p[y])) if c.mode == "sym" else None),
        c.or_(a == 0, lambda: p[a - 1] < p[a]),
        c.forall(0, a, lambda j: c.and_(c.desc_run(p, j)[1] <= a, res[j] == p[_mirror(c, p, j)]),
                 pattern=(lambda j: res[j]) if c.mode == "sym" else None),
    )


@contract("Perm.pop_stack_sort", params={"self": "Perm"}, returns="Perm", props=P)
class PopStackSort:
    def requires(c, self):
        return c.is_perm(self)

    def ensures(c, self, result):
        n = c.len(self)
        return c.and_(
            c.len(result) == n,
            c.forall(0, n, lambda j: result[j] == self[_mirror(c, self, j)], pattern=(lambda j: result[j]) if c.mode == "sym" else None),
            c.is_perm(result),
        )

    def ghost_inverse(c, self, result):
        g = self.meta["ginv"]

        def where(v):
            pos = g(c.int(v))
            return _mirror(c, self, pos)

        return where

    invariants = {0: _inv}
    modifies = ()
