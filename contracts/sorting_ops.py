"""C12: one pass of the pop-stack device, proved for all lengths.

Perm.pop_stack_sort pushes the entries on a stack while they decrease and empties the whole stack into the
output as soon as a larger entry arrives (and at the end).  What one pass of that device produces is:

    the input cut into its maximal strictly decreasing runs, each run written backwards.

Contract: for every index j, with [lo, hi) the maximal decreasing run of the input that contains j
(`c.desc_run`), result[j] == self[lo + hi - 1 - j]; and the result is a permutation (ghost inverse: the
value at input position p moves to lo(p) + hi(p) - 1 - p).

Loop invariant after k entries, with a = len(result):  the stack holds self[a..k) (newest first), that
stretch is decreasing and starts a run (a == 0 or an ascent at a), every index below a has its whole run
below a and carries its final value.
"""
from pyvc.dsl import contract

P = ("C12",)


def _mirror(c, p, j):
    lo, hi = c.desc_run(p, j)
    return lo + hi - 1 - j


def _inv(c, st, k):
    p, res, stack = st.self, st.result, st.stack
    a = c.len(res)
    pk = (lambda x: p[x]) if c.mode == "sym" else None
    return c.and_(
        a >= 0, a <= k, c.len(stack) == k - a, c.or_(k == 0, a < k),
        c.forall(0, k - a, lambda m: stack[m] == p[k - 1 - m], pattern=(lambda m: stack[m]) if c.mode == "sym" else None),
        c.forall2(a, k, lambda x, y: c.implies(x < y, lambda: p[x] > p[y]), pattern=(lambda x, y: (p[x], p[y])) if c.mode == "sym" else None),
        c.or_(a == 0, lambda: p[a - 1] < p[a]),
        c.forall(0, a, lambda j: c.and_(c.desc_run(p, j)[1] <= a, res[j] == p[_mirror(c, p, j)]),
                 pattern=(lambda j: res[j]) if c.mode == "sym" else None),
    )


@contract("Perm.pop_stack_sort", params={"self": "Perm"}, returns="Perm", props=P)
class PopStackSort:
    def requires(c, self):
        return c.is_perm(self)

    def ensures(c, self, result):
        n = c.len(self)
        return c.and_(
            c.len(result) == n,
            c.forall(0, n, lambda j: result[j] == self[_mirror(c, self, j)], pattern=(lambda j: result[j]) if c.mode == "sym" else None),
            c.is_perm(result),
        )

    def ghost_inverse(c, self, result):
        g = self.meta["ginv"]

        def where(v):
            pos = g(c.int(v))
            return _mirror(c, self, pos)

        return where

    invariants = {0: _inv}
    modifies = ()


# ------------------------------------------------------------------ bubble sort
# One pass of bubble sort (compare neighbours left to right, swap when out of order) carries the largest
# entry seen so far to the right:  out[j] = min(max(s[0..j]), s[j+1])  for j < n-1,  out[n-1] = max(s).
# Perm._bubble_sort is a recursion on the position of the maximum; proved equal to that pointwise description
# for every list of distinct integers (partial correctness: the recursive call is used by its contract).
def _pmax(c, s, j):
    return s[c.prefix_argmax(s, j)]


def _bub(c, s, j):
    m = _pmax(c, s, j)
    return c.ite(m > s[j + 1], s[j + 1], m)


def _distinct(c, s):
    n = c.len(s)
    return c.forall2(0, n, lambda x, y: c.implies(x != y, lambda: s[x] != s[y]), pattern=(lambda x, y: (s[x], s[y])) if c.mode == "sym" else None)


def _bubble_post(c, s, result):
    n = c.len(s)
    return c.and_(
        c.len(result) == n,
        c.implies(n >= 1, lambda: result[n - 1] == _pmax(c, s, n - 1)),
        c.forall(0, n - 1, lambda j: result[j] == _bub(c, s, j), pattern=(lambda j: result[j]) if c.mode == "sym" else None),
    )


@contract("Perm._bubble_sort", params={"perm_slice": "IntList"}, returns="List", props=P)
class BubbleSortInner:
    def requires(c, perm_slice):
        return _distinct(c, perm_slice)

    def ensures(c, perm_slice, result):
        return _bubble_post(c, perm_slice, result)

    modifies = ()


@contract("Perm.bubble_sort", params={"self": "Perm"}, returns="Perm", props=P)
class BubbleSort:
    def requires(c, self):
        return c.is_perm(self)

    def ensures(c, self, result):
        return c.and_(_bubble_post(c, self, result), c.is_perm(result))

    def ghost_inverse(c, self, result):
        g = self.meta["ginv"]

        def where(v):
            # a left-to-right maximum is carried to just before the next larger entry (to the end if there is
            # none); every other entry moves one step to the left
            pos = g(c.int(v))
            return c.ite(c.prefix_argmax(self, pos) == pos, c.next_greater(self, pos) - 1, pos - 1)

        return where

    modifies = ()


# ------------------------------------------------------------------ stack sort
# One pass through a stack (push every entry; before pushing, pop to the output while the top is smaller;
# empty the stack at the end).  For input positions x < y: the entry at x is still on the stack when y is
# pushed - and then leaves after y - exactly when no entry in (x, y] is larger than it.  So with pos(p) the output
# position of the entry at input position p:
#
#       for x < y:   pos(x) < pos(y)   <=>   some c in (x, y] has s[c] > s[x]
#
# and pos is a bijection of the positions with result[pos(p)] == s[p].  That determines the output.
# Perm._stack_sort is the recursion S(L max R) = S(L) S(R) max; `pos` and its inverse `src` are GHOST OUTPUTS of
# the contract: a caller gets them as fresh functions constrained by the postcondition, the function's own
# verification builds them from those of its recursive calls (partial correctness).
def _stack_post(c, s, n, result, src, pos):
    ps = (lambda j: [src(j), result[j]]) if c.mode == "sym" else None
    pp = (lambda p: pos(p)) if c.mode == "sym" else None
    return c.and_(
        c.len(result) == n,
        c.forall(0, n, lambda j: c.and_(src(j) >= 0, src(j) < n, lambda: c.and_(pos(src(j)) == j, result[j] == s[src(j)])), pattern=ps),
        c.forall(0, n, lambda p: c.and_(pos(p) >= 0, pos(p) < n, lambda: src(pos(p)) == p), pattern=pp),
        c.forall2(0, n, lambda x, y: c.implies(x < y, lambda: c.iff(pos(x) < pos(y), c.exists(x + 1, y + 1, lambda k: s[k] > s[x]))),
                  pattern=(lambda x, y: (pos(x), pos(y))) if c.mode == "sym" else None),
    )


def _stack_positions(s):
    """run time: output position of every input position, by simulating the device"""
    stack, out = [], []
    for p, v in enumerate(s):
        while stack and s[stack[-1]] < v:
            out.append(stack.pop())
        stack.append(p)
    while stack:
        out.append(stack.pop())
    pos = {p: j for j, p in enumerate(out)}
    return out, pos


@contract("Perm._stack_sort", params={"perm_slice": "IntList"}, returns="List", props=P)
class StackSortInner:
    ghost_outputs = ("src", "pos")
    named_slices = True

    def requires(c, perm_slice):
        return c.true()

    def ensures(c, perm_slice, result):
        return _stack_post(c, perm_slice, c.len(perm_slice), result, c.gout("src"), c.gout("pos"))

    @staticmethod
    def ghost_witness(c, st, calls):
        n = c.len(st.perm_slice)
        if len(calls) == 0:      # at most one entry: nothing moves
            return {"src": lambda j: c.int(j), "pos": lambda p: c.int(p)}
        m = c.int(st.max_i)
        if len(calls) == 1:      # the maximum is first or last: one recursive call on the rest
            g = calls[0]
            return {
                "src": lambda j: c.ite(c.int(j) == n - 1, m, c.ite(m == 0, g["src"](j) + 1, g["src"](j))),
                "pos": lambda p: c.ite(c.int(p) == m, n - 1, c.ite(m == 0, g["pos"](c.int(p) - 1), g["pos"](p))),
            }
        left, right = calls      # S(L) S(R) max
        return {
            "src": lambda j: c.ite(c.int(j) == n - 1, m, c.ite(c.int(j) < m, left["src"](j), right["src"](c.int(j) - m) + m + 1)),
            "pos": lambda p: c.ite(c.int(p) == m, n - 1, c.ite(c.int(p) < m, left["pos"](p), right["pos"](c.int(p) - m - 1) + m)),
        }

    @staticmethod
    def ghost_run(perm_slice, result):
        out, pos = _stack_positions(list(perm_slice))
        return {"src": lambda j: out[j] if 0 <= j < len(out) else -10 ** 9, "pos": lambda p: pos.get(p, -10 ** 9)}

    modifies = ()


def _where(c, p, v):
    if c.mode == "run":
        t = tuple(p)
        return t.index(v) if v in t else -10 ** 9
    return p.meta["ginv"](v)


@contract("Perm.stack_sort", params={"self": "Perm"}, returns="Perm", props=P)
class StackSort:
    def requires(c, self):
        return c.is_perm(self)

    def ensures(c, self, result):
        n = c.len(self)
        at = lambda x: _where(c, result, self[x])  # noqa: E731  output position of the entry at input position x
        return c.and_(
            c.len(result) == n,
            c.is_perm(result),
            c.forall2(0, n, lambda x, y: c.implies(x < y, lambda: c.iff(at(x) < at(y), c.exists(x + 1, y + 1, lambda k: self[k] > self[x]))),
                      pattern=(lambda x, y: (self[x], self[y])) if c.mode == "sym" else None),
        )

    def ghost_inverse(c, self, result):
        g = self.meta["ginv"]
        pos = c.calls[0]["pos"]
        return lambda v: pos(g(c.int(v)))

    modifies = ()
